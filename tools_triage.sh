#!/bin/bash
# tools_triage.sh <PID> <tier> : collect buckets, then shrink one replay per bucket
PID=$1; TIER=${2:-quick}
VK_COLLECT=1 ./check $PID $TIER 2>&1 | grep '^COLLECTED' | sed 's/^COLLECTED \[[^]]*\] x[0-9]* //' | sort -u > /tmp/vk_buckets_$PID.txt
cat /tmp/vk_buckets_$PID.txt
while read -r b; do
  echo "=== $b"
  VK_ONLY_BUCKET="$b" ./check $PID $TIER 2>&1 | grep -A3 '^VIOLATION' | cut -c1-900
done < /tmp/vk_buckets_$PID.txt
