#!/usr/bin/env python3
"""Sensitivity harness (DESIGN.md §7): applies each hand-written mutant to a scratch worktree of
/repo HEAD, runs `./check <ID> quick` against it with VK_REPO and expects exit 1.
usage: tools_sensitivity.py [ID ...]     results -> evidence/sensitivity.json"""
import json, os, subprocess, sys, time

WT = "/tmp/wt_mut"
G = "geneticengine/"
MUTANTS = [
 ("C01", "float-field-gets-int", G+"representations/tree/initializations.py",
  "    elif starting_symbol is float:\n        return decider.random_float()", "    elif starting_symbol is float:\n        return decider.random_int()"),
 ("C01", "dsge-bool-raw-gene", G+"representations/grammatical_evolution/dynamic_structured_ge.py",
  "return self.read(bool) % 2 == 0", "return self.read(bool)"),
 ("C02", "intrange-upper-plus-one", G+"grammar/metahandlers/ints.py",
  "        return random.randint(self.min, self.max)\n", "        return random.randint(self.min, self.max + 1)\n"),
 ("C02", "listsize-max-plus-one", G+"grammar/metahandlers/lists.py",
  "        size = random.randint(self.min, self.max)\n        li = []\n        for i in range(size):\n            nv = rec(inner_type)\n            li.append(nv)\n        assert len(li) == size",
  "        size = random.randint(self.min, self.max + 1)\n        li = []\n        for i in range(size):\n            nv = rec(inner_type)\n            li.append(nv)\n        assert len(li) == size"),
 ("C03", "maxdepth-filter-off-by-one", G+"representations/tree/initializations.py",
  "            x for x in alternatives if self.grammar.get_distance_to_terminal(x) <= (self.max_depth - ctx.depth)\n        ]\n        if not alternatives:\n            # only possible after backtracking has ruled out every production that fits",
  "            x for x in alternatives if self.grammar.get_distance_to_terminal(x) <= (self.max_depth - ctx.depth) + 1\n        ]\n        if not alternatives:\n            # only possible after backtracking has ruled out every production that fits"),
 ("C03", "dsge-validate-le", G+"representations/grammatical_evolution/dynamic_structured_ge.py",
  "if self.max_depth < self.grammar.get_min_tree_depth():", "if self.max_depth <= self.grammar.get_min_tree_depth():"),
 ("C04", "maxdepth-filter-strict", G+"representations/tree/initializations.py",
  "            x for x in alternatives if self.grammar.get_distance_to_terminal(x) <= (self.max_depth - ctx.depth)\n        ]\n        if not alternatives:\n            # only possible after backtracking has ruled out every production that fits",
  "            x for x in alternatives if self.grammar.get_distance_to_terminal(x) < (self.max_depth - ctx.depth) or ctx.depth == 0\n        ]\n        if not alternatives:\n            # only possible after backtracking has ruled out every production that fits"),
 ("C04", "union-always-first-alternative", G+"representations/tree/initializations.py",
  "        t: type = decider.choose_production_alternatives(\n            starting_symbol,\n            get_generic_parameters(starting_symbol),\n            context,\n        )",
  "        t: type = get_generic_parameters(starting_symbol)[0]"),
 ("C05", "min-over-fields", G+"grammar/grammar.py",
  "val = max(1 + self.get_distance_to_terminal(argt) for (_, argt) in args)", "val = min(1 + self.get_distance_to_terminal(argt) for (_, argt) in args)"),
 ("C05", "recursion-ignores-annotated", G+"grammar/grammar.py",
  "elif is_generic_list(ty) or is_annotated(ty):\n                    yield from explode_generics", "elif is_generic_list(ty):\n                    yield from explode_generics"),
 ("C06", "ge-crossover-shifted-tail", G+"representations/grammatical_evolution/ge.py",
  "c1 = parent1.dna[:rindex] + parent2.dna[rindex:]", "c1 = parent1.dna[:rindex] + parent2.dna[: len(parent2.dna) - rindex]"),
 ("C06", "sge-mutation-two-genes", G+"representations/grammatical_evolution/structured_ge.py",
  "        dna[rkey][rindex] = random.randint(0, sys.maxsize)\n", "        dna[rkey][rindex] = random.randint(0, sys.maxsize)\n        dna[rkey][rindex - 1] = random.randint(0, sys.maxsize)\n"),
 ("C07", "ge-structure-from-shared-decider", G+"representations/grammatical_evolution/ge.py",
  "decider_reading_from(self.decider, rand))", "self.decider)"),
 ("C07", "stack-mapping-draws-shared", G+"representations/stackgggp/__init__.py",
  "add_to_stacks(stacks, bool, r.random_bool())", "add_to_stacks(stacks, bool, __import__('random').random() < 0.5)"),
 ("C08", "stack-set-order", G+"representations/stackgggp/__init__.py",
  "    all_stack_types = ordered_stack_types(g)\n", "    all_stack_types = g.get_all_mentioned_symbols()\n"),
 ("C08", "decider-iterates-set", G+"representations/tree/initializations.py",
  "        alternatives = [\n            x for x in alternatives if self.grammar.get_distance_to_terminal(x) <= (self.max_depth - ctx.depth)\n        ]\n        if not alternatives:\n            # only possible after backtracking has ruled out every production that fits",
  "        alternatives = list({\n            x for x in alternatives if self.grammar.get_distance_to_terminal(x) <= (self.max_depth - ctx.depth)\n        })\n        if not alternatives:\n            # only possible after backtracking has ruled out every production that fits"),
 ("C09", "ge-mutate-in-place", G+"representations/grammatical_evolution/ge.py",
  "        clone = [i for i in genotype.dna]\n        clone[rindex] = random.randint(0, sys.maxsize)", "        clone = genotype.dna\n        clone[rindex] = random.randint(0, sys.maxsize)"),
 ("C09", "dsge-crossover-shares-lists", G+"representations/grammatical_evolution/dynamic_structured_ge.py",
  "                c1[k] = deepcopy(parent1.dna.get(k, []))\n                c2[k] = deepcopy(parent2.dna.get(k, []))\n            else:", "                c1[k] = parent1.dna.get(k, [])\n                c2[k] = deepcopy(parent2.dna.get(k, []))\n            else:"),
 ("C09", "elitism-sorts-input-in-place", G+"algorithms/gp/operators/elitism.py",
  "        new_population = sort_population(candidates, problem)", "        candidates.sort(key=lambda x: x.get_fitness(problem).maximizing_aggregate, reverse=True)\n        for c in candidates[target_size:]:\n            c.fitness_store.clear()\n        new_population = candidates"),
 ("C10", "backtrack-on-grammar-list", G+"representations/tree/initializations.py",
  "compatible_productions = list(global_context.grammar.alternatives[starting_symbol])", "compatible_productions = global_context.grammar.alternatives[starting_symbol]"),
 ("C11", "type-index-not-merged", G+"representations/tree/utils.py",
  "            for k, v in thisway.items():\n                types_this_way[k].extend(v)\n", "            pass\n"),
 ("C11", "distance-without-plus-one", G+"representations/tree/utils.py",
  "distance_to_term = max(distance_to_term, dist + abs_adjust + list_adjust)", "distance_to_term = max(distance_to_term, dist + abs_adjust)"),
 ("C12", "is-better-ge", G+"problems/__init__.py",
  "return a.maximizing_aggregate > b.maximizing_aggregate", "return a.maximizing_aggregate >= b.maximizing_aggregate"),
 ("C12", "minimize-sign-dropped", G+"problems/__init__.py",
  "        key = -v if minimize_value else v\n", "        key = v\n"),
 ("C13", "sequential-ignores-has-fitness", G+"evaluation/sequential.py",
  "            if not individual.has_fitness(problem):\n", "            if True:\n"),
 ("C13", "parallel-results-reversed", G+"evaluation/parallel.py",
  "            for i, f in zip(pending, fitnesses):", "            for i, f in zip(pending, reversed(fitnesses)):"),
 ("C14", "evaluation-budget-strict", G+"evaluation/budget.py",
  "return tracker.get_number_evaluations() >= self.evaluations_budget", "return tracker.get_number_evaluations() > self.evaluations_budget"),
 ("C14", "anyof-as-and", G+"evaluation/budget.py",
  "return self.a.is_done(tracker) or self.b.is_done(tracker)", "return self.a.is_done(tracker) and self.b.is_done(tracker)"),
 ("C15", "mutation-ignores-target", G+"algorithms/gp/operators/mutation.py",
  "            if index < target_size:\n", "            if True:\n"),
 ("C15", "crossover-drops-odd-extra", G+"algorithms/gp/operators/crossover.py",
  "        if (target_size // 2) * 2 < target_size:\n            yield npopulation[0]", "        if (target_size // 2) * 2 < target_size and False:\n            yield npopulation[0]"),
 ("C16", "sort-ascending", G+"problems/helpers.py",
  "return sorted(population, key=lambda x: x.get_fitness(problem).maximizing_aggregate, reverse=True)", "return sorted(population, key=lambda x: x.get_fitness(problem).maximizing_aggregate, reverse=False)"),
 ("C16", "elite-slice-minus-one", G+"algorithms/gp/operators/elitism.py",
  "yield from new_population[:target_size]", "yield from new_population[: max(1, target_size - 1)] if target_size > 2 else new_population[:target_size]"),
 ("C17", "tournament-min", G+"algorithms/gp/operators/selection.py",
  "winner = max(candidates, key=Individual.key_function(problem))", "winner = min(candidates, key=Individual.key_function(problem))"),
 ("C17", "lexicase-direction-swapped", G+"algorithms/gp/operators/selection.py",
  "choose_best = min if problem.minimize[c] else max", "choose_best = max if problem.minimize[c] else min"),
 ("C18", "ge-wrapper-modulo-width", G+"representations/grammatical_evolution/ge.py",
  "        return v % (max - min + 1) + min\n", "        return v % (max - min + 2) + min\n"),
 ("C18", "shuffle-overwrites-instead-of-swapping", G+"random/sources.py",
  "            lst[i], lst[j] = lst[j], lst[i]\n        return lst", "            lst[i] = lst[j]\n        return lst"),
 ("C18", "pop-random-returns-wrong-item", G+"random/sources.py",
  "        lst[i], item = item, lst[i]\n\n        return item", "        lst[i] = item\n\n        return item"),
 ("C19", "normalise-over-whole-grammar", G+"grammar/grammar.py",
  "            for prod in prods:\n                weights[prod] = weights[prod] / total_weights\n", "            for prod in prods:\n                weights[prod] = weights[prod] / (total_weights * max(1, len(self.alternatives) - 1))\n"),
 ("C19", "choice-weighted-inclusive-total", G+"random/sources.py",
  "rand_value: float = self.randint(0, max(total - 1, 0))", "rand_value: float = self.randint(0, total)"),
 ("C20", "missing-flush", G+"evaluation/recorder.py",
  "            )\n            self.csv_file.flush()\n", "            )\n"),
 ("C20", "best-only-writes-all", G+"evaluation/recorder.py",
  "if not self.only_record_best_individuals or is_best:", "if True:"),
]


def sh(*a, **k):
    return subprocess.run(*a, shell=True, capture_output=True, text=True, **k)


def main():
    only = set(sys.argv[1:])
    sh(f"git -C /repo worktree remove --force {WT}")
    r = sh(f"git -C /repo worktree add -q {WT} HEAD")
    assert r.returncode == 0, r.stderr
    results = []
    try:
        for pid, name, path, old, new in MUTANTS:
            if only and pid not in only:
                continue
            sh(f"git -C {WT} checkout -- .")
            full = os.path.join(WT, path)
            s = open(full).read()
            if old not in s:
                results.append({"property": pid, "mutant": name, "status": "NOT-APPLICABLE (pattern not found)"})
                print(pid, name, "PATTERN NOT FOUND")
                continue
            open(full, "w").write(s.replace(old, new, 1))
            imp = sh(f"cd {WT} && PYTHONPATH={WT} /venv/bin/python -c 'import geneticengine.algorithms.gp.gp, geml.simplegp'")
            t0 = time.time()
            env = dict(os.environ, VK_REPO=WT)
            r = subprocess.run(["./check", pid, "quick"], cwd="/verif", env=env, capture_output=True, text=True)
            buckets = [l.strip() for l in r.stdout.splitlines() if l.strip().startswith("bucket:")]
            status = "CAUGHT" if r.returncode == 1 else ("HARNESS-ERROR" if r.returncode == 2 else "MISSED")
            results.append({"property": pid, "mutant": name, "file": path, "imports": imp.returncode == 0, "status": status, "buckets": buckets[:3], "wall_s": round(time.time() - t0, 1)})
            print(pid, name, status, buckets[:2], f"{time.time() - t0:.0f}s")
    finally:
        sh(f"git -C /repo worktree remove --force {WT}")
    out = "/verif/evidence/sensitivity.json"
    prev = []
    if only and os.path.exists(out):
        prev = [x for x in json.load(open(out))["results"] if x["property"] not in only]
    json.dump({"note": "hand-written mutants of /repo HEAD applied to a scratch worktree; each check is expected to exit 1 (CAUGHT)", "results": prev + results}, open(out, "w"), indent=1)


if __name__ == "__main__":
    main()
