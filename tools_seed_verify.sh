#!/bin/bash
# tools_seed_verify.sh <ID> [src_dir]: confirm a seeded change (patch applies, demo passes without / fails with it,
# repository tests pass with it), run our check against it, write seeded/<ID>/meta.json. Scratch worktree is removed.
ID=$1; SRC=${2:-/tmp/seed_$ID/_out}; NAME=${3:-$ID}; DEST=/verif/seeded/$NAME; WT=/tmp/sv_$NAME
mkdir -p $DEST; cp $SRC/patch.diff $SRC/demo.py $DEST/ 2>/dev/null; cp $SRC/notes.md $DEST/notes.md 2>/dev/null
git -C /repo worktree remove --force $WT 2>/dev/null
git -C /repo worktree add -q $WT ${BASE:-HEAD} || exit 2
cd $WT
PYTHONPATH=$WT timeout 900 /venv/bin/python $DEST/demo.py > /tmp/sv_${NAME}_demo_clean.log 2>&1; d0=$?
git apply $DEST/patch.diff; ap=$?
PYTHONPATH=$WT timeout 900 /venv/bin/python $DEST/demo.py > /tmp/sv_${NAME}_demo_seeded.log 2>&1; d1=$?
if [ "$SKIP_TESTS" = "1" ]; then tests=$(python3 -c "import json;print(json.load(open('$DEST/meta.json'))['confirmed']['repository_tests_with_change'])" 2>/dev/null || echo skipped); else
PYTHONPATH=$WT /venv/bin/python -m pytest -q -p no:cacheprovider --benchmark-disable -n 8 --timeout=900 tests > /tmp/sv_${NAME}_tests.log 2>&1
tests=$(tail -1 /tmp/sv_${NAME}_tests.log | cut -c1-80); fi
cd /verif
VK_REPO=$WT VK_TIMEOUT=240 ./check $ID quick > /tmp/sv_${NAME}_check_quick.log 2>&1; cq=$?
ct="not-run"
if [ $cq -ne 1 ] && [ "$THOROUGH" != "0" ]; then VK_REPO=$WT VK_TIMEOUT=1500 ./check $ID thorough > /tmp/sv_${NAME}_check_thorough.log 2>&1; ct=$?; fi
[ "$ct" = "not-run" ] && rm -f /tmp/sv_${NAME}_check_thorough.log
buckets=$(grep -h "bucket:" /tmp/sv_${NAME}_check_*.log | sort -u | head -4 | tr '\n' ';')
git -C /repo worktree remove --force $WT
python3 - "$ID" "$ap" "$d0" "$d1" "$tests" "$cq" "$ct" "$buckets" "$NAME" <<'PY'
import json, sys
ID, ap, d0, d1, tests, cq, ct, buckets, NAME = sys.argv[1:10]
prop = [json.loads(l) for l in open('/verif/properties.jsonl') if json.loads(l)['id'] == ID][0]
notes = open(f'/verif/seeded/{NAME}/notes.md').read() if __import__('os').path.exists(f'/verif/seeded/{NAME}/notes.md') else ''
meta = {
  "property": ID, "title": prop["title"], "base_commit": __import__('os').environ.get("BASE") or __import__('subprocess').run(["git","-C","/repo","rev-parse","--short","HEAD"],capture_output=True,text=True).stdout.strip(),
  "origin": "independent sub-agent given only the property text and a scratch worktree",
  "needs_to_manifest": notes[:1500],
  "confirmed": {"patch_applies": ap == "0", "demo_exit_unchanged_tree": int(d0), "demo_exit_with_change": int(d1), "repository_tests_with_change": tests,
                "commands": ["git worktree add <scratch> HEAD", "python demo.py (unchanged)", "git apply patch.diff", "python demo.py (changed)", "pytest -q -n 8 --benchmark-disable tests", f"VK_REPO=<scratch> ./check {ID} quick", f"VK_REPO=<scratch> ./check {ID} thorough (only if quick missed)"]},
  "our_check": {"quick_exit": int(cq), "thorough_exit": ct, "caught": cq == "1" or ct == "1", "buckets": buckets},
}
json.dump(meta, open(f'/verif/seeded/{NAME}/meta.json', 'w'), indent=1)
print(NAME, "apply", ap, "demo clean/seeded", d0, d1, "| tests:", tests, "| check quick", cq, "thorough", ct, "|", buckets[:300])
PY
