"""GrammarSpec: a neutral, JSON-serialisable description of a grammar, a Hypothesis
strategy that builds productive specs by construction, and a materialiser that turns a
spec into real classes in a fresh synthetic module (DESIGN.md §1.1).

TypeExpr (JSON lists):
  ["int"] ["float"] ["str"] ["bool"]
  ["ref", name]
  ["list", T]
  ["tuple", [T...]]
  ["union", [T...]]
  ["ann", T, R]      R = refinement, see below

Refinement:
  ["IntRange", a, b] ["IntList", [..]] ["FloatRange", a, b] ["FloatList", [..]]
  ["VarRange", [names]] ["ListSizeBetween", a, b] ["LSBWLO", a, b]
  ["StringSizeBetween", a, b, alphabet] ["WeightedString", matrix, alphabet]
  ["IntervalRange", minlen, maxlen, top]
  ["Dependent", sibling, rule]     rule = ["intrange_from", k] | ["varrange_prefix", names]
                                          | ["listsize_upto"]
  ["UserMH", "identity"] | ["UserMH", "raise_if", sibling, value]

Spec:
  {"abstracts": [{"name","parent","style"}], "concretes": [{"name","parent","weight","fields":[[fname,T]]}],
   "start": name, "expansion": bool, "considered": [names]}
"""
from __future__ import annotations

import itertools
import sys
import types
from abc import ABC
from dataclasses import field as dc_field
from dataclasses import make_dataclass
from typing import Annotated, Any, Union

from hypothesis import strategies as st

BASES = ("int", "float", "str", "bool")

_counter = itertools.count()


# --------------------------------------------------------------------------------------
# helpers over type expressions
# --------------------------------------------------------------------------------------
def te_refs(t) -> list[str]:
    k = t[0]
    if k in BASES:
        return []
    if k == "ref":
        return [t[1]]
    if k == "list":
        return te_refs(t[1])
    if k in ("tuple", "union"):
        return [r for x in t[1] for r in te_refs(x)]
    if k == "ann":
        return te_refs(t[1])
    raise ValueError(t)


def te_forms(t) -> set[str]:
    """Names of the type forms occurring in a type expression (for labels)."""
    k = t[0]
    if k in BASES:
        return {k}
    if k == "ref":
        return {"ref"}
    if k == "list":
        return {"list"} | te_forms(t[1])
    if k in ("tuple", "union"):
        s = {k}
        for x in t[1]:
            s |= te_forms(x)
        return s
    if k == "ann":
        return {"ann:" + t[2][0]} | te_forms(t[1])
    raise ValueError(t)


def spec_forms(spec) -> set[str]:
    s: set[str] = set()
    for c in spec["concretes"]:
        for _, t in c["fields"]:
            s |= te_forms(t)
    return s


def te_str(t) -> str:
    k = t[0]
    if k in BASES:
        return k
    if k == "ref":
        return t[1]
    if k == "list":
        return f"list[{te_str(t[1])}]"
    if k == "tuple":
        return "tuple[" + ",".join(te_str(x) for x in t[1]) + "]"
    if k == "union":
        return "Union[" + ",".join(te_str(x) for x in t[1]) + "]"
    if k == "ann":
        return f"Annotated[{te_str(t[1])},{t[2][0]}{t[2][1:]}]"
    raise ValueError(t)


def spec_str(spec) -> str:
    out = []
    for a in spec["abstracts"]:
        out.append(f"{a['name']}{'<' + str(a['weight']) + '>' if a.get('weight') is not None else ''}({a['parent'] or a['style']})")
    for c in spec["concretes"]:
        w = f"<{c['weight']}>" if c.get("weight") is not None else ""
        fs = ", ".join(f"{n}:{te_str(t)}" for n, t in c["fields"])
        out.append(f"{c['name']}{w}({c['parent'] or '-'}){{{fs}}}")
    return f"start={spec['start']} exp={spec.get('expansion', False)} | " + "; ".join(out)


# --------------------------------------------------------------------------------------
# materialiser
# --------------------------------------------------------------------------------------
class Materialised:
    """Real classes for a spec. `classes[name]` is the class; `module` the synthetic module."""

    def __init__(self, spec, classes, module, mh_objects):
        self.spec = spec
        self.classes = classes
        self.module = module
        self.mh_objects = mh_objects  # list of (concrete name, field name, refinement json, object)
        self.names = {v: k for k, v in classes.items()}

    def considered(self):
        return [self.classes[n] for n in self.spec["considered"]]

    def start(self):
        return self.classes[self.spec["start"]]

    def grammar(self):
        from geneticengine.grammar.grammar import extract_grammar

        g = extract_grammar(self.considered(), self.start(), self.spec.get("expansion", False))
        sib = self.spec.get("sibling")
        if sib:
            self.extract_sibling(*sib)
        return g

    def extract_sibling(self, k, drop, s, flip=False):
        """A disturbance, not an operation under test: another grammar is extracted in the same
        process from (a subset of) the same classes - one considered class left out and/or another
        starting symbol and/or the other depth-counting mode - and analysed. extract_grammar is
        documented to rewrite the class-level weights; that is not an effect any property forbids,
        so the classes' __gengy__ records are put back afterwards. Whatever it raises is ignored."""
        import copy

        from geneticengine.grammar.grammar import extract_grammar

        cons = self.considered()
        dropc = cons[k % len(cons)] if cons else None
        sub = [c for c in cons if c is not dropc] if drop else cons
        allc = [c for c in self.classes.values() if isinstance(c, type)]
        start = allc[s % len(allc)] if s is not None and allc else self.start()
        exp = bool(self.spec.get("expansion", False)) != bool(flip)
        # (in a hierarchy without any declared weight extract_grammar has nothing to rewrite: then
        # nothing is put back, so that weights that appear from nowhere stay visible)
        declared = any(x.get("weight") is not None for x in self.spec["abstracts"] + self.spec["concretes"])
        saved = [(c, copy.deepcopy(c.__dict__.get("__gengy__"))) for c in allc] if declared else []
        try:
            g2 = extract_grammar(sub, start, exp)
            d2 = g2.get_min_tree_depth()
            g2.usable_grammar()
            if d2 < 1000:
                # ... and used: a few programs are created, mutated and crossed over with it
                from geneticengine.random.sources import NativeRandomSource
                from geneticengine.representations.tree.initializations import MaxDepthDecider
                from geneticengine.representations.tree.treebased import TreeBasedRepresentation

                r2 = NativeRandomSource(k)
                rep2 = TreeBasedRepresentation(g2, MaxDepthDecider(r2, g2, d2 + 2))
                ps = [rep2.create_genotype(r2) for _ in range(3)]
                ps.append(rep2.mutate(r2, ps[0]))
                ps.extend(rep2.crossover(r2, ps[1], ps[2]))
        except Exception:  # noqa: BLE001
            pass
        finally:
            for c, gy in saved:
                if gy is None:
                    if "__gengy__" in c.__dict__:
                        delattr(c, "__gengy__")
                else:
                    setattr(c, "__gengy__", gy)

    def cleanup(self):
        sys.modules.pop(self.module.__name__, None)


def _user_mh_classes():
    """User-defined metahandlers (documented extension point), defined lazily so that this
    module can be imported without geneticengine on the path."""
    from geneticengine.grammar.metahandlers.base import MetaHandlerGenerator, SynthesisException

    class IdentityMH(MetaHandlerGenerator):
        """Generates the base type unchanged; counts generate calls."""

        def __init__(self):
            self.calls = 0

        def generate(self, random, grammar, base_type, rec, dependent_values):
            self.calls += 1
            return rec(base_type)

        def validate(self, v) -> bool:
            return True

        def __repr__(self):
            return "IdentityMH"

    class RaiseIfMH(MetaHandlerGenerator):
        """Raises SynthesisException when sibling == value (an infeasible context),
        otherwise generates the base type. Counts raises."""

        def __init__(self, sibling, value):
            self.sibling = sibling
            self.value = value
            self.raised = 0

        def generate(self, random, grammar, base_type, rec, dependent_values):
            if dependent_values.get(self.sibling) == self.value:
                self.raised += 1
                raise SynthesisException(f"infeasible: {self.sibling}=={self.value}")
            return rec(base_type)

        def validate(self, v) -> bool:
            return True

        def get_dependencies(self):
            return [self.sibling]

        def __repr__(self):
            return f"RaiseIfMH({self.sibling}=={self.value})"

    class LazyListMH(MetaHandlerGenerator):
        """A user-written list generator (0-2 elements) that hands GengyList its elements in an
        unusual but legal form: as a generator, by appending after creation, from a buffer
        list that it clears and reuses afterwards, or as `library-made list + [more elements]`."""

        def __init__(self, mode):
            self.mode = mode
            self.buffer = []

        def generate(self, random, grammar, base_type, rec, dependent_values):
            from geneticengine.grammar.utils import get_generic_parameter
            from geneticengine.solutions.tree import GengyList

            inner = get_generic_parameter(base_type)
            if self.mode == "extend":
                # a list the library built (and labelled) itself, extended with `+` by further elements
                first = rec(base_type)
                return first + [rec(inner) for _ in range(random.randint(0, 2))]
            elems = [rec(inner) for _ in range(random.randint(0, 2))]
            if self.mode == "generator":
                return GengyList(inner, (e for e in elems))
            if self.mode == "append":
                out = GengyList(inner, [])
                for e in elems:
                    out.append(e)
                return out
            self.buffer[:] = elems
            out = GengyList(inner, self.buffer)
            self.buffer = []
            return out

        def validate(self, v) -> bool:
            return True

        def __repr__(self):
            return f"LazyListMH({self.mode})"

    return IdentityMH, RaiseIfMH, LazyListMH


def build_refinement(r):
    from geneticengine.grammar.metahandlers.dependent import Dependent
    from geneticengine.grammar.metahandlers.floats import FloatList, FloatRange
    from geneticengine.grammar.metahandlers.ints import IntervalRange, IntList, IntRange
    from geneticengine.grammar.metahandlers.lists import ListSizeBetween, ListSizeBetweenWithoutListOperations
    from geneticengine.grammar.metahandlers.strings import StringSizeBetween, WeightedStringHandler
    from geneticengine.grammar.metahandlers.vars import VarRange

    k = r[0]
    if k == "IntRange":
        return IntRange(r[1], r[2])
    if k == "IntList":
        return IntList(list(r[1]))
    if k == "FloatRange":
        return FloatRange(r[1], r[2])
    if k == "FloatList":
        return FloatList(list(r[1]))
    if k == "VarRange":
        return VarRange(list(r[1]))
    if k == "ListSizeBetween":
        return ListSizeBetween(r[1], r[2])
    if k == "LSBWLO":
        return ListSizeBetweenWithoutListOperations(r[1], r[2])
    if k == "StringSizeBetween":
        return StringSizeBetween(r[1], r[2], r[3])
    if k == "WeightedString":
        import numpy as np

        return WeightedStringHandler(np.array(r[1], dtype=float), list(r[2]))
    if k == "IntervalRange":
        return IntervalRange(r[1], r[2], r[3])
    if k == "Dependent":
        sib, rule = r[1], r[2]
        if rule[0] == "intrange_from":
            kk = rule[1]
            return Dependent(sib, lambda a, kk=kk: IntRange(a, a + kk))
        if rule[0] == "varrange_prefix":
            names = list(rule[1])
            return Dependent(sib, lambda a, names=names: VarRange(names[:a]))
        if rule[0] == "listsize_upto":
            return Dependent(sib, lambda a: ListSizeBetween(0, a))
        if rule[0] == "varrange_same":
            # the dependent value must be the sibling's value itself (passes values through untouched)
            return Dependent(sib, lambda a: VarRange([a]))
        if rule[0] == "encode_two":
            # two dependencies, listed in `sib` ("e0,d0") in another order than they are declared:
            # the callable's parameters follow the LISTED order; the result is not symmetric
            return Dependent(sib, lambda first, second: IntRange(10 * first + second, 10 * first + second))
        raise ValueError(rule)
    if k == "UserMH":
        IdentityMH, RaiseIfMH, LazyListMH = _user_mh_classes()
        if r[1] == "lazy_list":
            return LazyListMH(r[2])
        if r[1] == "identity":
            return IdentityMH()
        if r[1] == "raise_if":
            return RaiseIfMH(r[2], r[3])
    raise ValueError(r)


def materialise(spec) -> Materialised:
    from geneticengine.grammar.decorators import abstract, weight

    modname = f"vk_gram_{next(_counter)}"
    module = types.ModuleType(modname)
    module.__dict__.update({"Annotated": Annotated, "Union": Union})
    sys.modules[modname] = module
    classes: dict[str, type] = {}
    mh_objects = []

    # spec["define_order"] = k: the classes are CREATED in another order (as when the modules that
    # define them are imported in another order); what is handed to extract_grammar stays the same
    k_order = spec.get("define_order", 0)

    def shuffled(items, key):
        if not k_order:
            return list(items)
        import hashlib

        return sorted(items, key=lambda x: hashlib.sha256(f"{k_order}:{key(x)}".encode()).hexdigest())

    level = {}
    for a in spec["abstracts"]:
        level[a["name"]] = 0 if a["parent"] is None else level.get(a["parent"], 0) + 1
    abstract_order = sorted(shuffled(spec["abstracts"], lambda a: a["name"]), key=lambda a: level[a["name"]])
    for a in abstract_order:
        if a["parent"] is None:
            if a["style"] == "ABC":
                cls = type(a["name"], (ABC,), {"__module__": modname})
            else:
                cls = abstract(type(a["name"], (), {"__module__": modname}))
        else:
            cls = type(a["name"], (classes[a["parent"]],), {"__module__": modname})
            if a.get("weight") is not None and a.get("weight_first"):
                # @abstract written ABOVE @weight(w): the weight is attached first
                cls = abstract(weight(a["weight"])(cls))
            else:
                cls = abstract(cls)
                if a.get("weight") is not None:
                    cls = weight(a["weight"])(cls)
        classes[a["name"]] = cls
        setattr(module, a["name"], cls)

    mh_i = itertools.count()

    def ann_str(t, cname, fname) -> str:
        k = t[0]
        if k in BASES:
            return k
        if k == "ref":
            return t[1]
        if k == "list":
            return f"list[{ann_str(t[1], cname, fname)}]"
        if k == "tuple":
            return "tuple[" + ", ".join(ann_str(x, cname, fname) for x in t[1]) + "]"
        if k == "union":
            return "Union[" + ", ".join(ann_str(x, cname, fname) for x in t[1]) + "]"
        if k == "ann":
            obj = build_refinement(t[2])
            nm = f"_mh_{next(mh_i)}"
            setattr(module, nm, obj)
            mh_objects.append((cname, fname, t[2], obj))
            return f"Annotated[{ann_str(t[1], cname, fname)}, {nm}]"
        raise ValueError(t)

    for c in shuffled(spec["concretes"], lambda c: c["name"]):
        fields = [(fn, ann_str(ft, c["name"], fn)) for fn, ft in c["fields"]]
        bases = (classes[c["parent"]],) if c["parent"] else ()
        if c.get("style") == "plain":
            # a production written as an ordinary class with a type-annotated __init__ (supported: see
            # tests/representations/tree_based/nondataclass_test.py); a field-less one has no __init__ at all
            ns = {"__module__": modname}
            if fields:
                params = ", ".join(f"{fn}: {ann!r}" for fn, ann in fields)
                body = "; ".join(f"self.{fn} = {fn}" for fn, _ in fields)
                src = f"def __init__(self, {params}):\n    {body}\n"
                loc: dict = {}
                exec(src, module.__dict__, loc)  # noqa: S102 - generated from the spec
                ns["__init__"] = loc["__init__"]
            ns["__repr__"] = lambda self: type(self).__name__ + "(" + ", ".join(f"{k}={v!r}" for k, v in vars(self).items() if not k.startswith("gengy_")) + ")"
            cls = type(c["name"], bases, ns)
        else:
            # attributes that are NOT constructor parameters (field(init=False), e.g. a memoised
            # result): they are no children of the production
            memo = [(mn, ann_str(mt, c["name"], mn), dc_field(init=False, default=None, compare=False, repr=False)) for mn, mt in c.get("memo", [])]
            cls = make_dataclass(c["name"], list(fields) + memo, bases=bases, namespace={"__module__": modname})
        cls.__module__ = modname
        cls.__qualname__ = c["name"]
        if c.get("weight") is not None:
            cls = weight(c["weight"])(cls)
        classes[c["name"]] = cls
        setattr(module, c["name"], cls)

    return Materialised(spec, classes, module, mh_objects)


def redeclare(mat: Materialised, cname: str, fname: str, new_te):
    """Re-declares a field of an already materialised production the documented way
    (Prod.__init__.__annotations__[field] = T before the next grammar extraction) and
    updates mat.spec accordingly. Returns the new spec (a deep copy)."""
    import copy

    spec = copy.deepcopy(mat.spec)
    for c in spec["concretes"]:
        if c["name"] == cname:
            c["fields"] = [[fn, (new_te if fn == fname else ft)] for fn, ft in c["fields"]]
    cls = mat.classes[cname]
    k = sum(1 for n in vars(mat.module) if n.startswith("_mh_"))
    counter = itertools.count(k)

    def ann(t):
        kk = t[0]
        if kk in BASES:
            return kk
        if kk == "ref":
            return t[1]
        if kk == "list":
            return f"list[{ann(t[1])}]"
        if kk == "tuple":
            return "tuple[" + ", ".join(ann(x) for x in t[1]) + "]"
        if kk == "union":
            return "Union[" + ", ".join(ann(x) for x in t[1]) + "]"
        if kk == "ann":
            obj = build_refinement(t[2])
            nm = f"_mh_{next(counter)}"
            setattr(mat.module, nm, obj)
            mat.mh_objects.append((cname, fname, t[2], obj))
            return f"Annotated[{ann(t[1])}, {nm}]"
        raise ValueError(t)

    cls.__init__.__annotations__[fname] = ann(new_te)
    mat.spec = spec
    return spec


# --------------------------------------------------------------------------------------
# Hypothesis strategy
# --------------------------------------------------------------------------------------
class Flags:
    """Feature flags selecting a sub-family of specs. Every flag defaults to off except
    the basic ones; properties switch on what they need."""

    defaults = dict(
        max_abstract=3,
        max_concrete=6,
        min_extra_concrete=0,
        max_fields=3,
        nested_abstract=True,
        ints=True,  # bare int
        floats=True,
        strs=True,
        bools=True,
        refined=True,  # annotated base types
        float_refined=True,
        string_refined=True,
        weighted_string=False,
        interval_range=False,
        lists=True,  # annotated lists (ListSizeBetween ...)
        bare_lists=True,
        empty_lists=True,  # list sizes may start at 0
        list_of_abstract=True,
        tuples=True,
        unions=True,
        weights=False,
        zero_weights=False,
        dependent=False,
        user_mh=False,
        infeasible=False,
        unreachable=True,
        concrete_start=False,
        standalone_concretes=True,
        finite_choice=False,  # only finitely many choices everywhere
        class_fields_only=False,  # for expansion mode
        expansion=False,
        max_list_size=3,
        permute_considered=True,
        sibling=True,
        omit_abstracts=True,
        memo_fields=True,
        deep_standalone=True,
        listops=True,  # ListSizeBetween (with custom mutate/crossover) vs LSBWLO only
        nested_generics=True,  # list[Union[..]], list[tuple[..]]
        self_refs=True,  # Union[Self, other]
        plain_classes=True,  # some productions are ordinary classes with an annotated __init__
        unproductive=False,  # a reachable non-terminal that cannot derive any finite program
    )

    def __init__(self, **kw):
        d = dict(self.defaults)
        for k in kw:
            if k not in d:
                raise KeyError(k)
        d.update(kw)
        self.__dict__.update(d)

    def replace(self, **kw):
        d = {k: getattr(self, k) for k in self.defaults}
        d.update(kw)
        return Flags(**d)


_ALPHABETS = ["a", "ab", "xyz", "01"]
_NAMES = ["x", "y", "z"]


@st.composite
def _refined_base(draw, fl: Flags):
    opts = ["IntRange", "IntList", "VarRange"]
    if not fl.finite_choice:
        if fl.float_refined and fl.floats:
            opts += ["FloatRange", "FloatList"]
        if fl.string_refined:
            opts += ["StringSizeBetween"]
        if fl.weighted_string:
            opts += ["WeightedString"]
        if fl.interval_range:
            opts += ["IntervalRange"]
    else:
        opts += ["FloatList"] if (fl.float_refined and fl.floats) else []
    k = draw(st.sampled_from(opts))
    if k == "IntRange":
        a = draw(st.integers(-3, 3))
        w = draw(st.integers(0, 2 if fl.finite_choice else 5))
        if not fl.finite_choice and draw(st.integers(0, 5)) == 0:
            w = draw(st.sampled_from([1024, 1025, 5000, 10**6, 10**12]))  # wider than any single gene / small draw
        return ["ann", ["int"], ["IntRange", a, a + w]]
    if k == "IntList":
        xs = draw(st.lists(st.integers(-5, 5), min_size=1, max_size=3, unique=True))
        return ["ann", ["int"], ["IntList", xs]]
    if k == "VarRange":
        n = draw(st.integers(1, 3))
        return ["ann", ["str"], ["VarRange", _NAMES[:n]]]
    if k == "FloatRange":
        if draw(st.integers(0, 3)) == 0:
            # bounds written as int literals (as in geml.grammars.sgp: FloatRange(0, 9))
            a = draw(st.integers(-2, 3))
            return ["ann", ["float"], ["FloatRange", a, a + draw(st.integers(0, 4))]]
        if draw(st.integers(0, 3)) == 0:
            # a constant written as a degenerate range, with a value that is not a short binary fraction
            # (an interpolation formula that is not exact for min == max leaves the range by one ulp)
            a = draw(st.sampled_from([123.456, 1 / 3, 0.1 + 0.2, 2 / 3, 1e10 / 3, -123.456, 3e-7, 0.7]))
            return ["ann", ["float"], ["FloatRange", a, a]]
        a = draw(st.sampled_from([-1.5, 0.0, 0.25, 2.0]))
        w = draw(st.sampled_from([0.0, 0.5, 1.0, 3.0]))
        return ["ann", ["float"], ["FloatRange", a, a + w]]
    if k == "FloatList":
        xs = draw(st.lists(st.sampled_from([-1.0, 0.0, 0.5, 2.5]), min_size=1, max_size=3, unique=True))
        return ["ann", ["float"], ["FloatList", xs]]
    if k == "StringSizeBetween":
        a = draw(st.integers(0, 2))
        w = draw(st.integers(0, 2))
        return ["ann", ["str"], ["StringSizeBetween", a, a + w, draw(st.sampled_from(_ALPHABETS))]]
    if k == "WeightedString":
        alpha = draw(st.sampled_from(["ab", "xyz"]))
        rows = draw(st.integers(1, 3))
        m = [[draw(st.sampled_from([0.0, 0.25, 0.5, 1.0])) for _ in alpha] for _ in range(rows)]
        for row in m:
            if sum(row) == 0:
                row[draw(st.integers(0, len(alpha) - 1))] = 1.0
        return ["ann", ["str"], ["WeightedString", m, list(alpha)]]
    if k == "IntervalRange":
        mn = draw(st.integers(0, 3))
        mx = mn + draw(st.integers(1, 3))
        top = mx + draw(st.integers(1, 4))
        return ["ann", ["tuple", [["int"], ["int"]]], ["IntervalRange", mn, mx, top]]
    raise AssertionError(k)


@st.composite
def _base_type(draw, fl: Flags):
    opts = []
    if not fl.finite_choice:
        if fl.ints:
            opts.append(["int"])
        if fl.floats:
            opts.append(["float"])
        if fl.strs:
            opts.append(["str"])
    if fl.bools:
        opts.append(["bool"])
    if fl.refined or not opts:
        if draw(st.booleans()) or not opts:
            return draw(_refined_base(fl))
    return draw(st.sampled_from(opts))


@st.composite
def _list_of(draw, fl: Flags, elem):
    """A list type around elem: bare or size-refined."""
    kinds = []
    if fl.bare_lists and not fl.finite_choice:
        kinds.append("bare")
    if fl.lists:
        kinds.append("sized")
    k = draw(st.sampled_from(kinds))
    if k == "bare":
        return ["list", elem]
    lo = draw(st.integers(0 if fl.empty_lists else 1, 2))
    hi = lo + draw(st.integers(0, max(0, fl.max_list_size - lo)))
    if fl.finite_choice:
        hi = min(hi, 2)
        lo = min(lo, hi)
    name = "ListSizeBetween" if (fl.listops and draw(st.booleans())) else "LSBWLO"
    return ["ann", ["list", elem], [name, lo, hi]]


def _has_lists(fl):
    return (fl.bare_lists and not fl.finite_choice) or fl.lists


@st.composite
def _leaf_field(draw, fl: Flags):
    """A field type that needs no class: base, refined base, list of base (possibly empty)."""
    if fl.class_fields_only:
        raise AssertionError("no leaf fields in class-only mode")
    if _has_lists(fl) and draw(st.integers(0, 4)) == 0:
        inner = draw(_base_type(fl))
        if fl.nested_generics and draw(st.integers(0, 3)) == 0:
            inner = draw(_list_of(fl, inner))  # list of lists
        return draw(_list_of(fl, inner))
    if fl.tuples and draw(st.integers(0, 7)) == 0:
        return ["tuple", [draw(_base_type(fl)), draw(_base_type(fl))]]
    return draw(_base_type(fl))


@st.composite
def _class_field(draw, fl: Flags, targets: list[str], abstracts: list[str]):
    """A field type mentioning at least one class."""
    ref = ["ref", draw(st.sampled_from(targets))]
    forms = ["ref", "ref"]
    if _has_lists(fl):
        forms.append("list")
    if fl.unions:
        forms.append("union")
    if fl.tuples:
        forms.append("tuple")
    if fl.user_mh:
        forms.append("idmh")
        if _has_lists(fl) and fl.bare_lists and not fl.finite_choice and (fl.list_of_abstract or ref[1] not in abstracts):
            forms.append("lazymh")
    k = draw(st.sampled_from(forms))
    if k == "ref":
        return ref
    if k == "list":
        if not fl.list_of_abstract and ref[1] in abstracts:
            return ref
        elem = ref
        if fl.nested_generics and draw(st.integers(0, 3)) == 0:
            # list[Union[A, B]], list[tuple[A, base]] ... (generic inside a list)
            other = draw(st.sampled_from(targets).map(lambda n: ["ref", n])) if (fl.class_fields_only or draw(st.booleans())) else draw(_base_type(fl))
            if fl.unions and other != ref and draw(st.booleans()):
                elem = ["union", [ref, other]]
            elif fl.tuples:
                elem = ["tuple", [ref, other]]
        if fl.nested_generics and fl.lists and draw(st.integers(0, 4)) == 0:
            # a list of lists of programs: both levels size-refined (two bare levels would allow up to
            # 10 x 10 subtrees per node, which no depth limit keeps affordable)
            # (sizes up to 2 per level: two fields of 3 x 3 recursive subtrees made single cases run for minutes)
            sized = fl.replace(bare_lists=False, max_list_size=min(2, fl.max_list_size))
            return draw(_list_of(sized, draw(_list_of(sized, elem))))
        return draw(_list_of(fl, elem))
    if k == "union":
        other = draw(
            st.one_of(
                st.sampled_from(targets).map(lambda n: ["ref", n]),
                *([] if fl.class_fields_only else [_base_type(fl)]),
            ),
        )
        if other == ref:
            return ref
        alts = [ref, other]
        if draw(st.booleans()):
            alts.reverse()
        return ["union", alts]
    if k == "tuple":
        other = ref if fl.class_fields_only else draw(_base_type(fl))
        comps = [ref, other]
        if draw(st.booleans()):
            comps.reverse()
        return ["tuple", comps]
    if k == "idmh":
        return ["ann", ref, ["UserMH", "identity"]]
    if k == "lazymh":
        return ["ann", ["list", ref], ["UserMH", "lazy_list", draw(st.sampled_from(["generator", "append", "buffer", "extend"]))]]
    raise AssertionError(k)


@st.composite
def specs(draw, fl: Flags | None = None):
    fl = fl or Flags()
    n_abs = draw(st.integers(1, fl.max_abstract))
    abstracts = []
    for i in range(n_abs):
        parent = None
        if i > 0 and fl.nested_abstract and draw(st.booleans()):
            parent = draw(st.sampled_from([a["name"] for a in abstracts]))
        style = "ABC" if (parent is None and draw(st.booleans())) else "decorator"
        abstracts.append({"name": f"A{i}", "parent": parent, "style": style})
    abs_names = [a["name"] for a in abstracts]
    has_abs_child = {a["parent"] for a in abstracts if a["parent"]}

    concretes: list[dict] = []

    def new_conc(parent, fields):
        c = {"name": f"C{len(concretes)}", "parent": parent, "weight": None, "fields": fields}
        if fl.plain_classes and draw(st.integers(0, 5)) == 0:
            c["style"] = "plain"
        concretes.append(c)
        return c

    def leaf_fields():
        if fl.class_fields_only:
            return []
        if fl.dependent and draw(st.integers(0, 4)) == 0:
            # a leaf production carrying a dependent pair (possibly infeasible in some contexts):
            # this is how a non-terminal whose ONLY production can fail comes about
            if draw(st.booleans()):
                lo = 0 if fl.infeasible else 1
                return [["d0", ["ann", ["int"], ["IntRange", lo, 2]]], ["d1", ["ann", ["str"], ["Dependent", "d0", ["varrange_prefix", ["x", "y"]]]]]]
            return [["d0", ["ann", ["int"], ["IntRange", 0, 2]]], ["d1", ["ann", ["int"], ["Dependent", "d0", ["intrange_from", draw(st.integers(0, 2))]]]]]
        n = draw(st.integers(0, min(2, fl.max_fields)))
        return [[f"f{j}", draw(_leaf_field(fl))] for j in range(n)]

    # (2) a leaf production for every abstract type without abstract children
    for a in abs_names:
        if a not in has_abs_child:
            new_conc(a, leaf_fields())
    # (3) further productions / (4) standalone concretes
    n_more = draw(st.integers(min(fl.min_extra_concrete, max(0, fl.max_concrete - len(concretes))), max(0, fl.max_concrete - len(concretes))))
    for _ in range(n_more):
        standalone = fl.standalone_concretes and draw(st.integers(0, 5)) == 0
        parent = None if standalone else draw(st.sampled_from(abs_names))
        targets = abs_names + [c["name"] for c in concretes]
        nf = draw(st.integers(0 if not fl.class_fields_only else 1, fl.max_fields))
        fields = []
        for j in range(nf):
            if fl.class_fields_only or draw(st.integers(0, 2)) > 0:
                t = draw(_class_field(fl, targets, abs_names))
            else:
                t = draw(_leaf_field(fl))
            fields.append([f"f{j}", t])
        c = new_conc(parent, fields)
        if fl.unions and fl.self_refs and not fl.class_fields_only and fields and draw(st.integers(0, 5)) == 0:
            # a production that refers to ITSELF directly, inside a union with a productive alternative
            j = draw(st.integers(0, len(fields) - 1))
            other = draw(st.sampled_from(targets).map(lambda n: ["ref", n])) if draw(st.booleans()) else draw(_base_type(fl))
            alts = [["ref", c["name"]], other]
            if draw(st.booleans()):
                alts.reverse()
            fields[j] = [fields[j][0], ["union", alts]]
        # dependent refinements: rewrite a later field to depend on an earlier int field
        if fl.dependent and len(fields) >= 1 and draw(st.booleans()):
            kind = draw(st.sampled_from((["intrange_from", "varrange_prefix", "listsize_upto"] if _has_lists(fl) else ["intrange_from", "varrange_prefix"]) + (["varrange_same", "encode_two"] if fl.strs else ["encode_two"])))
            sib = ["ann", ["int"], ["IntRange", 0, draw(st.integers(1, 2))]]
            if kind == "intrange_from":
                dep = ["ann", ["int"], ["Dependent", "d0", ["intrange_from", draw(st.integers(0, 2))]]]
            elif kind == "varrange_prefix":
                if fl.infeasible:
                    sib = ["ann", ["int"], ["IntRange", 0, 2]]
                else:
                    sib = ["ann", ["int"], ["IntRange", 1, 2]]
                dep = ["ann", ["str"], ["Dependent", "d0", ["varrange_prefix", ["x", "y"]]]]
            elif kind == "varrange_same":
                sib = ["ann", ["str"], ["VarRange", ["x", "y"]]]
                dep = ["ann", ["str"], ["Dependent", "d0", ["varrange_same"]]]
            elif kind == "encode_two":
                sib = ["ann", ["int"], ["IntRange", 0, 2]]
                dep = ["ann", ["int"], ["Dependent", "e0,d0", ["encode_two"]]]
            else:
                elem = draw(st.sampled_from([["ref", n] for n in targets] + [["ann", ["int"], ["IntRange", 0, 1]]]))
                dep = ["ann", ["list", elem], ["Dependent", "d0", ["listsize_upto"]]]
            rest = fields[: max(0, fl.max_fields - 2)]
            cut = draw(st.integers(0, len(rest)))
            pre = draw(st.integers(0, cut))
            # sibling first, the dependent field anywhere after it; other fields in between
            between = rest[pre:cut]
            # a sibling between d0 and d1 that is a concrete production with a field of the same
            # name d0 (name clash between a node's fields and those of a nested node)
            clash = [x["name"] for x in concretes[:-1] if any(fn == "d0" for fn, _ in x["fields"])]
            if not fl.finite_choice and len(concretes) < fl.max_concrete + 2 and draw(st.integers(0, 2)) == 0:
                # ... of ANOTHER type / range than this production's d0 (inserted before c so that it is
                # declared first); reached directly, through a union or under an abstract type
                other_t = draw(st.sampled_from([["ann", ["int"], ["IntRange", 5, 9]], ["list", ["int"]], ["bool"], ["ann", ["int"], ["IntRange", 1, 1]]]))
                me = concretes.pop()
                q = new_conc(draw(st.sampled_from([None] + abs_names)), [["d0", other_t]])
                q["name"] = f"CQ{len(concretes)}"
                concretes.append(me)
                clash = clash + [q["name"]]
            if clash and draw(st.booleans()):
                tgt = ["ref", draw(st.sampled_from(clash))]
                if fl.unions and draw(st.integers(0, 2)) == 0:
                    tgt = ["union", [tgt, draw(_base_type(fl))]]
                between = between + [["n0", tgt]]
            if kind == "encode_two":
                between = between + [["e0", ["ann", ["int"], ["IntRange", 5, 6]]]]
            c["fields"] = rest[:pre] + [["d0", sib]] + between + [["d1", dep]] + rest[cut:]
        elif fl.infeasible and fl.user_mh and len(fields) >= 1 and draw(st.integers(0, 2)) == 0:
            sib = ["ann", ["int"], ["IntRange", 0, 1]]
            dep = ["ann", draw(st.sampled_from([["int"], ["ref", draw(st.sampled_from(abs_names))]])) if not fl.finite_choice else ["ref", draw(st.sampled_from(abs_names))], ["UserMH", "raise_if", "d0", draw(st.integers(0, 1))]]
            c["fields"] = [["d0", sib], ["d1", dep]] + fields[: max(0, fl.max_fields - 2)]

    if fl.deep_standalone and fl.unions and fl.standalone_concretes and draw(st.integers(0, 3)) == 0:
        # a chain of stand-alone productions (outside every abstract hierarchy) that needs more levels
        # than the abstract productions do, reachable only as a member of a Union-typed field
        n_chain = draw(st.integers(2, 3))
        leaf_t = ["ann", ["int"], ["IntRange", 0, 1]] if not fl.class_fields_only else None
        prev = None
        for j in range(n_chain):
            fields = [["f0", ["ref", prev]]] if prev else ([["f0", leaf_t]] if leaf_t else [])
            prev = new_conc(None, fields)["name"]
        other = ["ann", ["int"], ["IntRange", 0, 1]] if not fl.class_fields_only else ["ref", abs_names[0]]
        alts = [["ref", prev], other]
        if draw(st.booleans()):
            alts.reverse()
        new_conc(draw(st.sampled_from(abs_names)), [["f0", ["union", alts]]])
    if fl.deep_standalone and fl.unions and fl.standalone_concretes and not fl.class_fields_only and draw(st.integers(0, 5)) == 0:
        # a ring of stand-alone productions that reference each other directly (no abstract type on the
        # cycle), every link with a shallow escape: S_k(f0: Union[S_next, int]), S_last -> S_first
        n_ring = draw(st.integers(3, 7))
        ring = [new_conc(None, []) for _ in range(n_ring)]
        esc = ["ann", ["int"], ["IntRange", 0, 1]]
        for j, r in enumerate(ring):
            alts = [["ref", ring[(j + 1) % n_ring]["name"]], esc]
            if draw(st.booleans()):
                alts.reverse()
            r["fields"] = [["f0", ["union", alts]]]
        if draw(st.booleans()):
            # declaration order is a separate draw (the analysis iterates over sets of classes)
            k = draw(st.integers(0, n_ring - 1))
            idx = [concretes.index(r) for r in ring]
            rot = ring[k:] + ring[:k]
            for i, r in zip(idx, rot):
                concretes[i] = r
        new_conc(draw(st.sampled_from(abs_names)), [["f0", ["ref", ring[0]["name"]]]])
    if fl.infeasible and fl.dependent and not fl.class_fields_only and not fl.finite_choice and draw(st.integers(0, 3)) == 0:
        # a backtracking trap: non-terminal T0 -> TF | TD where TF can never be completed (its dependent
        # refinement has no admissible value) although the grammar analysis counts it as the shallow
        # production, and the only sibling TD sits on a chain of stand-alone productions that needs more
        # levels; T0 is used by a production of the main hierarchy, which has other alternatives
        abstracts.append({"name": "T0", "parent": None, "style": "decorator"})
        tf = new_conc("T0", [["d0", ["ann", ["int"], ["IntRange", 0, 0]]], ["d1", ["ann", ["str"], ["Dependent", "d0", ["varrange_prefix", ["x", "y"]]]]]])
        s0 = new_conc(None, [["f0", ["ann", ["int"], ["IntRange", 0, 1]]]])
        s1 = new_conc(None, [["f0", ["ref", s0["name"]]]])
        td = new_conc("T0", [["f0", ["ref", s1["name"]]]])
        if draw(st.booleans()):
            i, j = concretes.index(tf), concretes.index(td)
            concretes[i], concretes[j] = concretes[j], concretes[i]
        new_conc(draw(st.sampled_from(abs_names)), [["f0", ["ref", "T0"]]])
        if _has_lists(fl) and fl.lists and draw(st.booleans()):
            # ... and a size-refined list whose elements can never be built (the production holding it
            # can then never be completed either: creation has to back out of it)
            lo = draw(st.integers(1, 2))
            kind = "LSBWLO" if draw(st.booleans()) or not fl.listops else "ListSizeBetween"
            new_conc(draw(st.sampled_from(abs_names)), [["f0", ["ann", ["list", ["ref", tf["name"]]], [kind, lo, lo + draw(st.integers(0, 1))]]]])
    if fl.memo_fields:
        for c in concretes:
            if c.get("style") != "plain" and draw(st.integers(0, 5)) == 0:
                tgt = draw(st.sampled_from(abs_names + [x["name"] for x in concretes]))
                c["memo"] = [["memo0", ["ref", tgt]]]
    if fl.unproductive and draw(st.integers(0, 2)) == 0:
        # U0 -> CU0(f0: U0) only: legal declarations, but U0 derives no finite program; CU1 makes it
        # reachable from a productive non-terminal (the library gives such symbols distance 1000000)
        abstracts.append({"name": "U0", "parent": None, "style": "decorator"})
        if draw(st.booleans()):
            concretes.append({"name": "CU0", "parent": "U0", "weight": None, "fields": [["f0", ["ref", "U0"]]]})
        # (otherwise U0 is an abstract type without any production at all)
        concretes.append({"name": "CU1", "parent": draw(st.sampled_from(abs_names)), "weight": None, "fields": [["f0", ["ref", "U0"]]]})
    if fl.weights:
        for a in abstracts:
            if a["parent"] and draw(st.integers(0, 2)) == 0:
                # a nested abstract type is itself a (weighted) production of its parent
                a["weight"] = draw(st.one_of(st.integers(1, 5), st.sampled_from([0.5, 2.0])))
                a["weight_first"] = draw(st.booleans())
        for c in concretes:
            if c["parent"] and draw(st.booleans()):
                lo = 0 if fl.zero_weights else 1
                c["weight"] = draw(st.one_of(st.integers(lo, 5), st.sampled_from([0.5, 1.5, 2.0, 0.25])))
        if fl.zero_weights:
            # bias: the first production of some rule gets weight 0 (the interesting position)
            for a in abs_names:
                prods = [c for c in concretes if c["parent"] == a]
                if len(prods) >= 2 and draw(st.integers(0, 2)) == 0:
                    prods[0]["weight"] = 0
            # every rule keeps one positive declared weight (all-zero rule is unsound input)
            for a in abs_names:
                prods = [c for c in concretes if c["parent"] == a]
                if prods and all((c["weight"] is not None and c["weight"] == 0) for c in prods):
                    prods[0]["weight"] = 1

    start = abs_names[0]
    if fl.concrete_start == "always":
        # a production with a class-typed field as start symbol (so that it can also occur deeper)
        cands = [c["name"] for c in concretes if c["parent"] and any(te_refs(t) for _, t in c["fields"]) and c["name"] not in ("CU0", "CU1")]
        if cands:
            start = draw(st.sampled_from(cands))
    elif fl.concrete_start and draw(st.integers(0, 3)) == 0:
        start = draw(st.sampled_from([c["name"] for c in concretes]))

    considered = [a["name"] for a in abstracts] + [c["name"] for c in concretes]
    if not fl.unreachable:
        considered = _reachable_only(abstracts, concretes, start)
    if fl.permute_considered:
        considered = draw(st.permutations(considered))
    spec = {
        "abstracts": abstracts,
        "concretes": concretes,
        "start": start,
        "expansion": bool(fl.expansion),
        "considered": list(considered),
    }
    if not fl.unreachable:
        keep = set(considered)
        spec["abstracts"] = [a for a in abstracts if a["name"] in keep]
        spec["concretes"] = [c for c in concretes if c["name"] in keep]
    if fl.omit_abstracts and draw(st.integers(0, 2)) == 0:
        # README style: only (some of) the classes are listed; abstract types other than the start
        # symbol are left to be discovered through their listed subclasses and through field types
        inter = [a["name"] for a in spec["abstracts"] if a["name"] != start]
        if inter:
            drop = set(draw(st.lists(st.sampled_from(inter), unique=True, min_size=1, max_size=len(inter))))
            spec["considered"] = [n for n in spec["considered"] if n not in drop]
    if fl.sibling and draw(st.integers(0, 3)) == 0:
        # a second grammar extracted from (a subset of) the same classes right after the first
        spec["sibling"] = [draw(st.integers(0, 12)), draw(st.booleans()), draw(st.one_of(st.none(), st.integers(0, 12))), draw(st.integers(0, 3)) == 0]
    return spec


def _reachable_only(abstracts, concretes, start):
    parent_of = {a["name"]: a["parent"] for a in abstracts}
    parent_of.update({c["name"]: c["parent"] for c in concretes})
    cfields = {c["name"]: c["fields"] for c in concretes}
    seen = []
    todo = [start]
    while todo:
        s = todo.pop()
        if s in seen:
            continue
        seen.append(s)
        for n, p in parent_of.items():
            if p == s:
                todo.append(n)
        if s in cfields:
            for _, t in cfields[s]:
                todo.extend(te_refs(t))
    # ancestors of reachable symbols must exist as classes
    for s in list(seen):
        p = parent_of.get(s)
        while p and p not in seen:
            seen.append(p)
            p = parent_of.get(p)
    order = [a["name"] for a in abstracts] + [c["name"] for c in concretes]
    return [n for n in order if n in seen]
