"""Reference model over a GrammarSpec (DESIGN.md §1.2). Imports nothing from geneticengine:
values are inspected with type(), isinstance(list/tuple) and getattr(field name)."""
from __future__ import annotations

import itertools
from functools import lru_cache

from vk.spec import BASES, te_refs

INF = float("inf")


class SpecInfo:
    def __init__(self, spec, classes: dict[str, type] | None = None):
        self.spec = spec
        self.abstract_names = [a["name"] for a in spec["abstracts"]]
        self.concrete_names = [c["name"] for c in spec["concretes"]]
        self.parent = {a["name"]: a["parent"] for a in spec["abstracts"]}
        self.parent.update({c["name"]: c["parent"] for c in spec["concretes"]})
        self.fields = {c["name"]: [(n, t) for n, t in c["fields"]] for c in spec["concretes"]}
        self.weight = {c["name"]: c.get("weight") for c in spec["concretes"]}
        self.weight.update({a["name"]: a.get("weight") for a in spec["abstracts"]})
        self.considered = list(spec["considered"])
        self.start = spec["start"]
        self.expansion = bool(spec.get("expansion", False))
        self.classes = classes or {}
        self.name_of = {v: k for k, v in self.classes.items()}
        self._registered = self._compute_registered()
        self._min_depth: dict[str, float] | None = None

    # ----- which classes end up in the grammar ----------------------------------------
    def _compute_registered(self) -> set[str]:
        """Symbols the extraction registers: start, everything reachable through fields,
        subclasses among the considered classes, and ancestors."""
        seen: set[str] = set()
        todo = [self.start]
        cons = set(self.considered)
        while todo:
            s = todo.pop()
            if s in seen:
                continue
            seen.add(s)
            p = self.parent.get(s)
            if p:
                todo.append(p)
            for n in cons:
                if self.is_subclass(n, s):
                    todo.append(n)
            if s in self.fields:
                for _, t in self.fields[s]:
                    todo.extend(te_refs(t))
        return seen

    def is_subclass(self, n, a) -> bool:
        while n is not None:
            if n == a:
                return True
            n = self.parent.get(n)
        return False

    def is_abstract(self, n) -> bool:
        return n in self.abstract_names

    def direct_productions(self, a) -> list[str]:
        """Direct subtypes of a among the classes known to the grammar."""
        return [n for n in self.abstract_names + self.concrete_names if self.parent.get(n) == a and n in self._registered]

    def concrete_productions(self, a) -> list[str]:
        out = []
        for n in self.direct_productions(a):
            if self.is_abstract(n):
                out.extend(self.concrete_productions(n))
            else:
                out.append(n)
        return out

    def registered(self) -> set[str]:
        return set(self._registered)

    # ----- reachability ---------------------------------------------------------------
    def reachable(self, start=None) -> set[str]:
        """Symbols reachable from the start symbol by expanding productions and fields."""
        start = start or self.start
        seen: set[str] = set()
        todo = [start]
        while todo:
            s = todo.pop()
            if s in seen:
                continue
            seen.add(s)
            if self.is_abstract(s):
                todo.extend(self.direct_productions(s))
            else:
                for _, t in self.fields[s]:
                    todo.extend(te_refs(t))
        return seen

    # ----- minimum depth --------------------------------------------------------------
    def te_min_depth(self, t, md) -> float:
        k = t[0]
        if k in BASES:
            return 1 if self.expansion else 0
        if k == "ref":
            return md[t[1]]
        if k == "list":
            return 0  # may be empty
        if k == "tuple":
            return max([self.te_min_depth(x, md) for x in t[1]] or [0])
        if k == "union":
            return min(self.te_min_depth(x, md) for x in t[1])
        if k == "ann":
            r = t[2]
            inner = t[1]
            if inner[0] == "list":
                lo = _list_min_size(r)
                if lo == 0:
                    return 0
                return self.te_min_depth(inner[1], md)
            if inner[0] in BASES or inner[0] == "tuple" and r[0] == "IntervalRange":
                return 1 if self.expansion else 0
            return self.te_min_depth(inner, md)
        raise ValueError(t)

    def min_depths(self) -> dict[str, float]:
        """Least fixpoint: depth of the shallowest program derivable from each symbol
        (tree mode: nodes count 1, builtins 0, lists/tuples transparent).
        Expansion mode is only meaningful on class-field-only specs: every abstract ->
        production step and every concrete node counts 1."""
        if self._min_depth is not None:
            return self._min_depth
        md = {n: INF for n in self.abstract_names + self.concrete_names}
        changed = True
        while changed:
            changed = False
            for n in md:
                if self.is_abstract(n):
                    prods = self.direct_productions(n)
                    v = min([md[p] for p in prods] or [INF]) + (1 if self.expansion else 0)
                else:
                    fs = self.fields[n]
                    v = 1 + max([self.te_min_depth(t, md) for _, t in fs] or [0])
                if v < md[n]:
                    md[n] = v
                    changed = True
        self._min_depth = md
        return md

    # ----- recursion ------------------------------------------------------------------
    def derives(self) -> dict[str, set[str]]:
        """s -> set of symbols that can occur in a program derived from s (one step edges)."""
        edges: dict[str, set[str]] = {}
        for n in self.abstract_names:
            edges[n] = set(self.direct_productions(n))
        for n in self.concrete_names:
            edges[n] = {r for _, t in self.fields[n] for r in te_refs(t)}
        return edges

    def recursive(self) -> set[str]:
        edges = self.derives()
        out = set()
        for s in edges:
            seen: set[str] = set()
            todo = list(edges[s])
            while todo:
                x = todo.pop()
                if x in seen:
                    continue
                seen.add(x)
                todo.extend(edges.get(x, ()))
            if s in seen:
                out.add(s)
        return out


def _list_min_size(r):
    if r[0] in ("ListSizeBetween", "LSBWLO"):
        return r[1]
    if r[0] == "Dependent" and r[2][0] == "listsize_upto":
        return 0
    if r[0] == "UserMH":
        return 0
    return 0


# --------------------------------------------------------------------------------------
# canonical form, depth, well-typedness, refinements
# --------------------------------------------------------------------------------------
def canon(v, info: SpecInfo | None = None):
    """Hashable canonical form; identity-free. Works on any value (foreign values get a
    ('?', typename) marker)."""
    t = type(v)
    if t in (int, float, str, bool):
        return (t.__name__, repr(v))
    if isinstance(v, list):
        return ("L",) + tuple(canon(x, info) for x in v)
    if t is tuple:
        return ("T",) + tuple(canon(x, info) for x in v)
    name = t.__name__
    if info is not None and name in info.fields and info.classes.get(name) is t:
        return (name,) + tuple(canon(getattr(v, fn, None), info) for fn, _ in info.fields[name])
    import dataclasses

    if dataclasses.is_dataclass(v) and not isinstance(v, type):
        return (name,) + tuple(canon(getattr(v, f.name, None), info) for f in dataclasses.fields(v))
    return ("?", name)


def safe_canon(v, info=None):
    """canon() for values that may be absurdly deep (a broken depth limit): the marker
    ('?', 'too-deep-to-traverse') instead of a RecursionError in the harness."""
    try:
        return canon(v, info)
    except RecursionError:
        return ("?", "too-deep-to-traverse")


def safe_depth(v, info) -> int:
    try:
        return depth(v, info)
    except RecursionError:
        return 10**6


def canon_str(c) -> str:
    if isinstance(c, tuple):
        if c and c[0] in ("int", "float", "str", "bool") and len(c) == 2:
            return c[1]
        if c and c[0] == "L":
            return "[" + ",".join(canon_str(x) for x in c[1:]) + "]"
        if c and c[0] == "T":
            return "(" + ",".join(canon_str(x) for x in c[1:]) + ")"
        if c and c[0] == "?":
            return f"<foreign {c[1]}>"
        return c[0] + "(" + ",".join(canon_str(x) for x in c[1:]) + ")"
    return repr(c)


def depth(v, info: SpecInfo) -> int:
    """Longest chain of nested grammar nodes (tree mode)."""
    t = type(v)
    if t in (int, float, str, bool):
        return 0
    if isinstance(v, (list, tuple)):
        return max([depth(x, info) for x in v] or [0])
    name = t.__name__
    if name in info.fields:
        return 1 + max([depth(getattr(v, fn), info) for fn, _ in info.fields[name]] or [0])
    return 0


def depth_expansion(v, declared, info: SpecInfo) -> int:
    """Expansion-mode depth on class-field-only specs: every abstract->production step and
    every concrete node counts 1."""
    name = type(v).__name__
    steps = 0
    d = declared
    # steps from the declared (possibly abstract) symbol down to the concrete class
    n = name
    chain = []
    while n is not None and n != d:
        chain.append(n)
        n = info.parent.get(n)
    steps = len(chain) if n == d else 0
    below = 0
    for fn, ft in info.fields[name]:
        assert ft[0] == "ref"
        below = max(below, depth_expansion(getattr(v, fn), ft[1], info))
    return steps + 1 + below if d != name else 1 + below


def nodes(v, info: SpecInfo):
    """All grammar-node objects of a program, pre-order."""
    out = []

    def go(x):
        if isinstance(x, (list, tuple)):
            for y in x:
                go(y)
        elif type(x).__name__ in info.fields and type(x) not in (int, float, str, bool):
            out.append(x)
            for fn, _ in info.fields[type(x).__name__]:
                go(getattr(x, fn))

    go(v)
    return out


class TypeErrorFound:
    def __init__(self, path, expected, got, clause):
        self.path = path
        self.expected = expected
        self.got = got
        self.clause = clause

    def __repr__(self):
        return f"{self.clause} at {self.path or '<root>'}: expected {self.expected}, got {self.got}"


def well_typed(v, t, info: SpecInfo, path="") -> list[TypeErrorFound]:
    """Exact rules of C01. Returns the list of errors (empty = well-typed)."""
    k = t[0]
    errs: list[TypeErrorFound] = []
    if k in BASES:
        want = {"int": int, "float": float, "str": str, "bool": bool}[k]
        if type(v) is not want:
            errs.append(TypeErrorFound(path, k, f"{type(v).__name__}:{_short(v)}", f"{k}-field-not-{k}"))
        return errs
    if k == "ref":
        name = t[1]
        tn = type(v).__name__
        cls = info.classes.get(tn)
        if cls is None or type(v) is not cls or tn not in info.fields:
            errs.append(TypeErrorFound(path, name, f"{tn}:{_short(v)}", "ref-field-foreign-value"))
            return errs
        if info.is_abstract(name):
            if tn not in info.concrete_productions(name):
                errs.append(TypeErrorFound(path, name, tn, "abstract-field-not-a-production"))
                return errs
        elif tn != name:
            errs.append(TypeErrorFound(path, name, tn, "concrete-field-wrong-class"))
            return errs
        for fn, ft in info.fields[tn]:
            if not hasattr(v, fn):
                errs.append(TypeErrorFound(f"{path}.{fn}", ft, "<missing>", "field-missing"))
                continue
            errs.extend(well_typed(getattr(v, fn), ft, info, f"{path}.{fn}"))
        return errs
    if k == "list":
        if not isinstance(v, list):
            errs.append(TypeErrorFound(path, "list", f"{type(v).__name__}:{_short(v)}", "list-field-not-list"))
            return errs
        for i, x in enumerate(v):
            errs.extend(well_typed(x, t[1], info, f"{path}[{i}]"))
        return errs
    if k == "tuple":
        if type(v) is not tuple:
            errs.append(TypeErrorFound(path, "tuple", f"{type(v).__name__}:{_short(v)}", "tuple-field-not-tuple"))
            return errs
        if len(v) != len(t[1]):
            errs.append(TypeErrorFound(path, f"tuple/{len(t[1])}", f"tuple/{len(v)}", "tuple-arity"))
            return errs
        for i, (x, xt) in enumerate(zip(v, t[1])):
            errs.extend(well_typed(x, xt, info, f"{path}({i})"))
        return errs
    if k == "union":
        alts = [well_typed(v, a, info, path) for a in t[1]]
        if any(not e for e in alts):
            return []
        errs.append(TypeErrorFound(path, "union", f"{type(v).__name__}:{_short(v)}", "union-no-alternative"))
        return errs
    if k == "ann":
        return well_typed(v, t[1], info, path)
    raise ValueError(t)


def _short(v):
    s = repr(v)
    return s if len(s) < 40 else s[:37] + "..."


FLOAT_TOL = 1e-9


def _tol(lo, hi):
    if lo == hi:
        # a degenerate range names ONE value: every interpolation formula the library uses
        # (x * (max - min) + min, (max - min) / k + min) is exact there, so no tolerance applies
        return 0.0
    return FLOAT_TOL * max(1.0, abs(lo), abs(hi))


def refined_ok(v, r, siblings: dict) -> tuple[bool, str]:
    """Documented predicate of each refinement. Returns (ok, clause)."""
    k = r[0]
    try:
        if k == "IntRange":
            return (type(v) is int and r[1] <= v <= r[2], "IntRange")
        if k == "IntList":
            return (v in r[1], "IntList")
        if k == "FloatRange":
            tol = _tol(r[1], r[2])
            return (isinstance(v, float) and r[1] - tol <= v <= r[2] + tol, "FloatRange")
        if k == "FloatList":
            return (v in r[1], "FloatList")
        if k == "VarRange":
            # "one of the options": the very value, not something that merely prints alike
            return (any(type(v) is type(o) and v == o for o in r[1]), "VarRange")
        if k in ("ListSizeBetween", "LSBWLO"):
            return (isinstance(v, list) and r[1] <= len(v) <= r[2], k)
        if k == "StringSizeBetween":
            return (isinstance(v, str) and r[1] <= len(v) <= r[2] and all(ch in r[3] for ch in v), k)
        if k == "WeightedString":
            return (isinstance(v, str) and len(v) == len(r[1]) and all(ch in r[2] for ch in v), k)
        if k == "IntervalRange":
            ok = (
                isinstance(v, tuple)
                and len(v) == 2
                and r[1] <= v[1] - v[0] <= r[2]
                and 0 <= v[0]
                and v[1] <= r[3]
            )
            return (ok, k)
        if k == "Dependent":
            rule = r[2]
            if rule[0] == "encode_two":
                first, second = (siblings[n] for n in r[1].split(","))
                return (type(v) is int and v == 10 * first + second, "Dependent/encode_two")
            sib = siblings[r[1]]
            if rule[0] == "varrange_same":
                return (type(v) is str and v == sib, "Dependent/varrange_same")
            if rule[0] == "intrange_from":
                return (type(v) is int and sib <= v <= sib + rule[1], "Dependent/intrange_from")
            if rule[0] == "varrange_prefix":
                return (v in rule[1][:sib], "Dependent/varrange_prefix")
            if rule[0] == "listsize_upto":
                return (isinstance(v, list) and 0 <= len(v) <= sib, "Dependent/listsize_upto")
        if k == "UserMH":
            if r[1] == "raise_if":
                return (siblings.get(r[2]) != r[3], "UserMH/raise_if")
            return (True, "UserMH")
    except Exception as e:  # a malformed value cannot satisfy the predicate
        return (False, f"{k}/predicate-raised-{type(e).__name__}")
    raise ValueError(r)


def check_refinements(v, t, info: SpecInfo, path="", siblings=None) -> list[tuple[str, str, str]]:
    """Walk a (well-typed as far as possible) value and check every refinement against
    the actual sibling values. Returns list of (path, clause, detail)."""
    out = []
    k = t[0]
    if k in BASES:
        return out
    if k == "ann":
        ok, clause = refined_ok(v, t[2], siblings or {})
        if not ok:
            out.append((path, clause, f"value {_short(v)} violates {t[2]} (siblings {_short(siblings)})"))
        out.extend(check_refinements(v, t[1], info, path, siblings))
        return out
    if k == "ref":
        name = type(v).__name__
        if name not in info.fields:
            return out
        sibs = {}
        for fn, ft in info.fields[name]:
            if not hasattr(v, fn):
                continue
            fv = getattr(v, fn)
            out.extend(check_refinements(fv, ft, info, f"{path}.{fn}", dict(sibs)))
            sibs[fn] = fv
        return out
    if k == "list":
        if isinstance(v, list):
            for i, x in enumerate(v):
                out.extend(check_refinements(x, t[1], info, f"{path}[{i}]", None))
        return out
    if k == "tuple":
        if type(v) is tuple and len(v) == len(t[1]):
            for i, (x, xt) in enumerate(zip(v, t[1])):
                out.extend(check_refinements(x, xt, info, f"{path}({i})", None))
        return out
    if k == "union":
        # judge with the first alternative that is well-typed
        for a in t[1]:
            if not well_typed(v, a, info):
                return check_refinements(v, a, info, path, siblings)
        return out
    raise ValueError(t)


# --------------------------------------------------------------------------------------
# bounded language for finite-choice specs
# --------------------------------------------------------------------------------------
class TooLarge(Exception):
    pass


class Language:
    """All canonical programs of depth <= d derivable from a symbol / type expression.
    Values are canon tuples paired with their depth. Finite-choice specs only."""

    def __init__(self, info: SpecInfo, cap: int = 20000):
        self.info = info
        self.cap = cap
        self._memo: dict = {}

    def of_symbol(self, name: str, d: int) -> frozenset:
        key = ("s", name, d)
        if key in self._memo:
            return self._memo[key]
        info = self.info
        if d <= 0:
            res = frozenset()
        elif info.is_abstract(name):
            acc = set()
            for p in info.direct_productions(name):
                acc |= self.of_symbol(p, d)
            res = frozenset(acc)
        else:
            res = frozenset(self._node(name, d))
        if len(res) > self.cap:
            raise TooLarge(name)
        self._memo[key] = res
        return res

    def _node(self, name, d):
        fs = self.info.fields[name]
        out = set()

        def rec(i, sibs, acc):
            if i == len(fs):
                out.add((name,) + tuple(acc))
                if len(out) > self.cap:
                    raise TooLarge(name)
                return
            fn, ft = fs[i]
            for (c, raw) in self.of_type(ft, d - 1, sibs):
                rec(i + 1, {**sibs, fn: raw}, acc + [c])

        rec(0, {}, [])
        return out

    def of_type(self, t, d, sibs) -> list:
        """List of (canon, raw-python-value-or-None) for type expression t with node depth
        budget d. raw is only provided for base values (needed as sibling values)."""
        k = t[0]
        if k == "bool":
            return [(("bool", "True"), True), (("bool", "False"), False)]
        if k in ("int", "float", "str"):
            raise TooLarge(f"bare {k}")
        if k == "ref":
            return [(c, None) for c in self.of_symbol(t[1], d)]
        if k == "list":
            raise TooLarge("bare list")
        if k == "tuple":
            parts = [self.of_type(x, d, None) for x in t[1]]
            return [(("T",) + tuple(c for c, _ in combo), None) for combo in itertools.product(*parts)]
        if k == "union":
            seen = {}
            for a in t[1]:
                for c, raw in self.of_type(a, d, sibs):
                    seen[c] = raw
            return list(seen.items())
        if k == "ann":
            r = t[2]
            inner = t[1]
            rk = r[0]
            if rk == "IntRange":
                return [(("int", repr(i)), i) for i in range(r[1], r[2] + 1)]
            if rk == "IntList":
                return [(("int", repr(i)), i) for i in r[1]]
            if rk == "FloatList":
                return [(("float", repr(float(x))), float(x)) for x in r[1]]
            if rk == "VarRange":
                return [(("str", repr(s)), s) for s in r[1]]
            if rk in ("ListSizeBetween", "LSBWLO"):
                return self._lists(inner[1], r[1], r[2], d)
            if rk == "Dependent":
                rule = r[2]
                if rule[0] == "encode_two":
                    first, second = (sibs[n] for n in r[1].split(","))
                    return [(("int", repr(10 * first + second)), 10 * first + second)]
                sib = sibs[r[1]]
                if rule[0] == "varrange_same":
                    return [(("str", repr(sib)), sib)]
                if rule[0] == "intrange_from":
                    return [(("int", repr(i)), i) for i in range(sib, sib + rule[1] + 1)]
                if rule[0] == "varrange_prefix":
                    return [(("str", repr(s)), s) for s in rule[1][:sib]]
                if rule[0] == "listsize_upto":
                    return self._lists(inner[1], 0, sib, d)
            if rk == "UserMH":
                if r[1] == "raise_if" and sibs.get(r[2]) == r[3]:
                    return []
                return self.of_type(inner, d, sibs)
            raise TooLarge(rk)
        raise ValueError(t)

    def _lists(self, elem_t, lo, hi, d):
        elems = self.of_type(elem_t, d, None)
        out = []
        for n in range(lo, hi + 1):
            for combo in itertools.product(elems, repeat=n):
                out.append((("L",) + tuple(c for c, _ in combo), None))
                if len(out) > self.cap:
                    raise TooLarge("list")
        return out


def canon_depth(c) -> int:
    """Depth of a canon tuple (nodes are tuples whose head is a class name)."""
    if not isinstance(c, tuple) or not c:
        return 0
    h = c[0]
    if h in ("int", "float", "str", "bool", "?"):
        return 0
    if h in ("L", "T"):
        return max([canon_depth(x) for x in c[1:]] or [0])
    return 1 + max([canon_depth(x) for x in c[1:]] or [0])


def canon_is_full(c, d) -> bool:
    """Every maximal node chain has length exactly d."""
    def go(x, k):
        if not isinstance(x, tuple) or not x:
            return True
        h = x[0]
        if h in ("int", "float", "str", "bool", "?"):
            return True
        if h in ("L", "T"):
            return all(go(y, k) for y in x[1:])
        k += 1
        kids = [y for y in x[1:] if _has_node(y)]
        if not kids:
            return k == d
        return all(go(y, k) for y in x[1:])
    return go(c, 0)


def _has_node(c) -> bool:
    if not isinstance(c, tuple) or not c:
        return False
    h = c[0]
    if h in ("int", "float", "str", "bool", "?"):
        return False
    if h in ("L", "T"):
        return any(_has_node(y) for y in c[1:])
    return True


def canon_nodes(c) -> int:
    if not isinstance(c, tuple) or not c:
        return 0
    h = c[0]
    if h in ("int", "float", "str", "bool", "?"):
        return 0
    if h in ("L", "T"):
        return sum(canon_nodes(x) for x in c[1:])
    return 1 + sum(canon_nodes(x) for x in c[1:])


def handmade_copy(p, info):
    """The same program written out by hand: every production instance is rebuilt through its
    constructor, lists become plain lists - no node carries anything the library attached."""
    if isinstance(p, list):
        return [handmade_copy(x, info) for x in p]
    if isinstance(p, tuple):
        return tuple(handmade_copy(x, info) for x in p)
    by_class = {c: n for n, c in info.classes.items()}
    name = by_class.get(type(p))
    if name is None or name not in info.fields:
        return p
    return type(p)(*[handmade_copy(getattr(p, fn), info) for fn, _ in info.fields[name]])
