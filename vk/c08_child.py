"""Child interpreter for C08: runs one search configuration and prints a digest.
usage: python -m vk.c08_child <case.json>   (environment perturbations are in the case)"""
from __future__ import annotations

import hashlib
import json
import sys


def fitness_of(canon_string: str, levels: int = 7) -> float:
    h = hashlib.sha256(canon_string.encode()).digest()
    return float(int.from_bytes(h[:2], "big") % levels)  # coarse: ties and plateaus happen


def _make_init(case, w):
    """The population initialiser object of the configuration (None = the algorithm's default)."""
    if case["alg"] != "gp" or case["rep"] != "tree":
        return None
    kind = case.get("init", "standard")
    if kind in ("full", "grow", "pigrow", "ramped"):
        return w.initializer(kind)
    if kind == "inject":
        from geneticengine.random.sources import NativeRandomSource
        from geneticengine.representations.tree.operators import InjectInitialPopulationWrapper

        r = NativeRandomSource(case["seed"] + 1)
        rep0 = w.make_rep(w.make_decider(r), "tree")  # its own decider: no draw from the search's source
        progs = [rep0.create_genotype(r) for _ in range(case.get("inject_n", 3))]
        return InjectInitialPopulationWrapper(progs, w.initializer("standard"))
    return None


def _make_step(case):
    if case["alg"] == "gp" and case.get("gp_step") == "crossover-heavy":
        from vk.steps import build_step

        return build_step(["par", [["elitism"], ["seq", [["tournament", 3, False], ["crossover", 1.0], ["mutation", 0.5]]]], [1, 9]])
    if case["alg"] == "gp" and case.get("gp_step") == "elitism-heavy":
        # several elitism slots in every generation: WHICH of several equally fit programs survive decides
        # what the next generation is bred from
        from vk.steps import build_step

        return build_step(["par", [["elitism"], ["seq", [["tournament", 2, False], ["crossover", 0.7], ["mutation", 0.7]]]], [4, 6]])
    return None


def _one_search(case, w, init, step, full):
    from vk.refmodel import canon, canon_str

    info = w.info
    seq: list[str] = []
    err = None
    best_s, best_f = None, None
    try:

        def ff(p):
            s = canon_str(canon(p, info))
            seq.append(s)
            return fitness_of(s, case.get("fitness_levels", 7))

        _, best = w.search(case["alg"], case["budget"] * (case.get("budget_factor", 1) if case["alg"] == "gp" else 1), case["popsize"], fitness=ff, minimize=case["minimize"], initializer=init, step=step)
        if best is not None:
            best_s = canon_str(canon(best.get_phenotype(), info))
            best_f = best.get_fitness(w.last_problem).fitness_components[0]
    except Exception as e:  # noqa: BLE001
        err = type(e).__name__
    h = hashlib.sha256("\n".join(seq).encode()).hexdigest()
    out = {"n": len(seq), "sha": h, "best": best_s, "best_fitness": best_f, "error": err, "distinct": len(set(seq))}
    if full:
        out["seq"] = seq
    return out


def run(case, full=False, repeats=1):
    """repeats == 1: one search, returns its digest. repeats > 1: the configuration objects that
    carry no seed (grammar, initialiser, step) are built once and shared by `repeats` searches run
    one after the other, each with a fresh random source / decider / representation of the same
    seed; returns the list of digests."""
    import logging

    logging.disable(logging.CRITICAL)
    import warnings

    warnings.simplefilter("ignore")
    from vk.world import World

    from geneticengine.random.sources import NativeRandomSource

    bad = {"n": 0, "sha": "", "best": None, "best_fitness": None, "distinct": 0, "seq": []}
    try:
        w = World(case, source_factory=NativeRandomSource)
    except Exception as e:  # noqa: BLE001 - grammar extraction failed: not C08's business
        r = {**bad, "error": "extract-" + type(e).__name__}
        return r if repeats == 1 else [r] * repeats
    try:
        try:
            w.build()
            init = _make_init(case, w)
            step = _make_step(case)
        except Exception as e:  # noqa: BLE001
            r = {**bad, "error": type(e).__name__}
            return r if repeats == 1 else [r] * repeats
        outs = []
        for k in range(repeats):
            if k > 0:
                w.random = NativeRandomSource(case.get("seed", 0))
                try:
                    w.build()
                except Exception as e:  # noqa: BLE001
                    outs.append({**bad, "error": type(e).__name__})
                    continue
            outs.append(_one_search(case, w, init, step, full))
        return outs[0] if repeats == 1 else outs
    finally:
        w.cleanup()


def main():
    with open(sys.argv[1]) as f:
        job = json.load(f)
    env = job.get("env", {})
    # allocation pattern before the grammar classes are defined
    keep = []
    for i in range(env.get("dummies", 0)):
        keep.append(type(f"Dummy{i}", (), {"x": i}))
        keep.append(bytearray(64 + 8 * i))
    for m in env.get("imports", []):
        try:
            __import__(m)
        except Exception:  # noqa: BLE001
            pass
    if env.get("define_order"):
        job["case"]["spec"] = {**job["case"]["spec"], "define_order": env["define_order"]}
    out = run(job["case"], full=job.get("full", False))
    out["_keep"] = len(keep)
    print("C08CHILD " + json.dumps(out))


if __name__ == "__main__":
    main()
