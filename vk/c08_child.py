"""Child interpreter for C08: runs one search configuration and prints a digest.
usage: python -m vk.c08_child <case.json>   (environment perturbations are in the case)"""
from __future__ import annotations

import hashlib
import json
import sys


def fitness_of(canon_string: str) -> float:
    h = hashlib.sha256(canon_string.encode()).digest()
    return float(int.from_bytes(h[:2], "big") % 7)  # coarse: ties and plateaus happen


def run(case, full=False):
    import logging

    logging.disable(logging.CRITICAL)
    import warnings

    warnings.simplefilter("ignore")
    from vk.refmodel import canon, canon_str
    from vk.world import World

    from geneticengine.random.sources import NativeRandomSource

    try:
        w = World(case, source_factory=NativeRandomSource)
    except Exception as e:  # noqa: BLE001 - grammar extraction failed: not C08's business
        return {"n": 0, "sha": "", "best": None, "best_fitness": None, "error": "extract-" + type(e).__name__, "distinct": 0, "seq": []}
    try:
        info = None
        seq: list[str] = []
        err = None
        best_s, best_f = None, None
        try:
            w.build()
            info = w.info

            def ff(p):
                s = canon_str(canon(p, info))
                seq.append(s)
                return fitness_of(s)

            init = None
            if case["alg"] == "gp" and case["rep"] == "tree" and case.get("init") == "full":
                from geneticengine.representations.tree.operators import FullInitializer

                init = FullInitializer(w.max_depth)
            step = None
            if case["alg"] == "gp" and case.get("gp_step") == "crossover-heavy":
                from vk.steps import build_step

                step = build_step(["par", [["elitism"], ["seq", [["tournament", 3, False], ["crossover", 1.0], ["mutation", 0.5]]]], [1, 9]])
            _, best = w.search(case["alg"], case["budget"], case["popsize"], fitness=ff, minimize=case["minimize"], initializer=init, step=step)
            if best is not None:
                best_s = canon_str(canon(best.get_phenotype(), info))
                best_f = best.get_fitness(w.last_problem).fitness_components[0]
        except Exception as e:  # noqa: BLE001
            err = type(e).__name__
        # the fitness function in World.search records every argument in order -> use seq
        h = hashlib.sha256("\n".join(seq).encode()).hexdigest()
        out = {"n": len(seq), "sha": h, "best": best_s, "best_fitness": best_f, "error": err, "distinct": len(set(seq))}
        if full:
            out["seq"] = seq
        return out
    finally:
        w.cleanup()


def main():
    with open(sys.argv[1]) as f:
        job = json.load(f)
    env = job.get("env", {})
    # allocation pattern before the grammar classes are defined
    keep = []
    for i in range(env.get("dummies", 0)):
        keep.append(type(f"Dummy{i}", (), {"x": i}))
        keep.append(bytearray(64 + 8 * i))
    for m in env.get("imports", []):
        try:
            __import__(m)
        except Exception:  # noqa: BLE001
            pass
    out = run(job["case"], full=job.get("full", False))
    out["_keep"] = len(keep)
    print("C08CHILD " + json.dumps(out))


if __name__ == "__main__":
    main()
