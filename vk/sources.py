"""Random sources owned by the harness (DESIGN.md §1.3)."""
from __future__ import annotations

from geneticengine.random.sources import NativeRandomSource, RandomSource


class Unbounded(Exception):
    """A draw with a range too wide to enumerate."""


class ScriptedSource(RandomSource):
    """randint replays a prefix of choices and then takes the lower bound; every call is
    recorded as (lo, hi, choice). random_float is a 3-way decision {lo, mid, hi}."""

    def __init__(self, prefix=(), max_width: int = 64):
        self.prefix = list(prefix)
        self.trace: list[tuple[int, int, int]] = []
        self.max_width = max_width

    def randint(self, min, max):  # noqa: A002
        if max - min > self.max_width:
            raise Unbounded(f"randint({min},{max})")
        if max < min:
            raise Unbounded(f"empty range randint({min},{max})")
        i = len(self.trace)
        c = self.prefix[i] if i < len(self.prefix) else min
        if not (min <= c <= max):
            # the decision tree changed under the same prefix: non-determinism in the SUT
            raise Unbounded(f"prefix choice {c} outside [{min},{max}] at {i}")
        self.trace.append((min, max, c))
        return c

    def random_float(self, min, max):  # noqa: A002
        k = self.randint(0, 2)
        return float([min, (min + max) / 2, max][k])  # a float even for int-literal bounds

    def normalvariate(self, mean, sigma):
        k = self.randint(0, 2)
        return [mean - sigma, mean, mean + sigma][k]


def next_prefix(trace):
    k = len(trace) - 1
    while k >= 0 and trace[k][2] >= trace[k][1]:
        k -= 1
    if k < 0:
        return None
    return [t[2] for t in trace[:k]] + [trace[k][2] + 1]


def enumerate_all(run, max_paths: int, max_width: int = 64):
    """Odometer over the decision tree of run(source). Yields (trace, result, exception).
    Stops after max_paths (then `complete` is False). Returns via StopIteration value."""
    prefix: list[int] | None = []
    n = 0
    while prefix is not None:
        if n >= max_paths:
            return False
        src = ScriptedSource(prefix, max_width=max_width)
        res, exc = None, None
        try:
            res = run(src)
        except Unbounded:
            raise
        except BaseException as e:  # noqa: BLE001 - judged by the caller
            if isinstance(e, (KeyboardInterrupt, SystemExit)):
                raise
            exc = e
        n += 1
        yield list(src.trace), res, exc
        prefix = next_prefix(src.trace)
    return True


def enumerate_collect(run, max_paths: int, max_width: int = 64):
    """Like enumerate_all but returns (list of (trace,res,exc), complete)."""
    out = []
    gen = enumerate_all(run, max_paths, max_width)
    complete = None
    while True:
        try:
            out.append(next(gen))
        except StopIteration as s:
            complete = s.value
            break
    return out, bool(complete)


class RecordingSource(NativeRandomSource):
    """NativeRandomSource logging every primitive call."""

    def __init__(self, seed: int = 0):
        super().__init__(seed)
        self.log: list[tuple] = []
        self.enabled = True

    def randint(self, min, max):  # noqa: A002
        v = super().randint(min, max)
        if self.enabled:
            self.log.append(("randint", min, max, v))
        return v

    def random_float(self, min, max):  # noqa: A002
        v = super().random_float(min, max)
        if self.enabled:
            self.log.append(("random_float", min, max, v))
        return v

    def normalvariate(self, mean, sigma):
        v = super().normalvariate(mean, sigma)
        if self.enabled:
            self.log.append(("normalvariate", mean, sigma, v))
        return v

    def choice(self, choices):
        n0 = len(self.log)
        v = super().choice(choices)
        if self.enabled:
            self.log.append(("choice", list(choices), None, v, n0))
        return v

    def getstate(self):
        return self.random.getstate()

    def calls(self) -> int:
        return len(self.log)
