"""The operation engine (DESIGN.md §1.5): builds a grammar + representation from a JSON case
and executes generated operation sequences, reporting every event to an observer.

case = {
  "spec": GrammarSpec, "rep": tree|ge|sge|dsge|stack, "decider": maxdepth|full|pigrow|progressive,
  "depth_extra": k (max_depth = grammar minimum + k), "seed": int, "gene_length": int,
  "ops": [["create"], ["mutate", i], ["crossover", i, j], ["map", i], ["burn", n],
          ["search", alg, budget, popsize]]
}
Indices are taken modulo the current pool size; ops needing a non-empty pool are skipped
(counted) when it is empty.
"""
from __future__ import annotations

import copy
import os
import traceback

from hypothesis import strategies as st

from vk.refmodel import SpecInfo
from vk.sources import RecordingSource
from vk.spec import Flags, materialise, specs

REPS = ["tree", "ge", "sge", "dsge", "stack"]
DECIDERS = ["maxdepth", "full", "pigrow", "progressive"]
INF_VALUE = 1000000


def is_library_error(e: BaseException) -> bool:
    return type(e).__module__.startswith("geneticengine")


def exc_bucket(e: BaseException) -> str:
    """(exception type, innermost geneticengine frame, its nearest geneticengine caller)."""
    if isinstance(e, RecursionError):
        return "RecursionError"
    frames = []
    for fs in traceback.extract_tb(e.__traceback__):
        fn = fs.filename.replace("\\", "/")
        if "/geneticengine/" in fn or "/geml/" in fn:
            frames.append((os.path.basename(fn), fs.name))
    if not frames:
        return f"{type(e).__name__}@<outside-library>"
    inner = frames[-1]
    caller = None
    for f in reversed(frames[:-1]):
        if f != inner:
            caller = f
            break
    s = f"{type(e).__name__}@{inner[0]}:{inner[1]}"
    if caller:
        s += f"<{caller[0]}:{caller[1]}"
    return s


class Event:
    def __init__(self, kind, op, inputs, outputs=None, exc=None, extra=None):
        self.kind = kind
        self.op = op
        self.inputs = inputs  # pool indices
        self.outputs = outputs or []  # pool indices of new genotypes
        self.exc = exc
        self.extra = extra or {}


class World:
    def __init__(self, case, source_factory=None, mat=None):
        self.case = case
        self.mat = mat if mat is not None else materialise(case["spec"])
        self.info = SpecInfo(case["spec"], self.mat.classes)
        self.grammar = self.mat.grammar()
        self.random = (source_factory or RecordingSource)(case.get("seed", 0))
        self.min_depth = self.grammar.get_min_tree_depth()
        self.max_depth = self.min_depth + case.get("depth_extra", 2)
        self.rep_kind = case.get("rep", "tree")
        self.decider_kind = case.get("decider", "maxdepth")
        self.pool: list = []
        self.skipped = 0
        self.rep = None
        self.decider = None

    def productive(self) -> bool:
        return self.min_depth < INF_VALUE

    def build(self):
        """Constructs decider + representation. May raise (judged by the caller)."""
        if self.rep_kind == "dsge":
            # dynamic SGE takes its depth limit itself and never sees a tree decider: building one first
            # would let the DECIDER reject an infeasible limit on the representation's behalf
            self.rep = self.make_rep(None)
            try:
                self.decider = self.make_decider(self.random)
            except Exception:  # noqa: BLE001 - only needed by ops that create trees directly
                self.decider = None
            return self.rep
        self.decider = self.make_decider(self.random)
        self.rep = self.make_rep(self.decider)
        return self.rep

    def make_decider(self, random, kind=None, max_depth=None):
        from geneticengine.representations.tree.initializations import (
            FullDecider,
            MaxDepthDecider,
            PositionIndependentGrowDecider,
            ProgressivelyTerminalDecider,
        )

        kind = kind or self.decider_kind
        d = self.max_depth if max_depth is None else max_depth
        if kind == "maxdepth":
            return MaxDepthDecider(random, self.grammar, d)
        if kind == "full":
            return FullDecider(random, self.grammar, d)
        if kind == "pigrow":
            return PositionIndependentGrowDecider(random, self.grammar, d)
        if kind == "progressive":
            return ProgressivelyTerminalDecider(random, self.grammar)
        raise ValueError(kind)

    def make_rep(self, decider, kind=None):
        from geneticengine.representations.grammatical_evolution.dynamic_structured_ge import (
            DynamicStructuredGrammaticalEvolutionRepresentation,
        )
        from geneticengine.representations.grammatical_evolution.ge import GrammaticalEvolutionRepresentation
        from geneticengine.representations.grammatical_evolution.structured_ge import (
            StructuredGrammaticalEvolutionRepresentation,
        )
        from geneticengine.representations.stackgggp import StackBasedGGGPRepresentation
        from geneticengine.representations.tree.treebased import TreeBasedRepresentation

        kind = kind or self.rep_kind
        gl = self.case.get("gene_length", 64)
        if kind == "tree":
            return TreeBasedRepresentation(self.grammar, decider)
        if kind == "ge":
            return GrammaticalEvolutionRepresentation(self.grammar, decider, gene_length=gl)
        if kind == "sge":
            return StructuredGrammaticalEvolutionRepresentation(self.grammar, decider, gene_length=gl)
        if kind == "dsge":
            return DynamicStructuredGrammaticalEvolutionRepresentation(self.grammar, max_depth=self.max_depth)
        if kind == "stack":
            return StackBasedGGGPRepresentation(self.grammar, gene_length=max(gl, 256), failures_limit=self.case.get("failures_limit", 60))
        raise ValueError(kind)

    # ---- operations -------------------------------------------------------------------
    def run(self, observer):
        """observer(event, world) is called after every executed operation."""
        for op in self.case["ops"]:
            ev = self.step(op)
            if ev is not None:
                observer(ev, self)

    def _idx(self, i):
        return i % len(self.pool)

    def step(self, op) -> Event | None:
        k = op[0]
        rep = self.rep
        try:
            if k == "create":
                g = rep.create_genotype(self.random)
                self.pool.append(g)
                return Event(k, op, [], [len(self.pool) - 1])
            if k == "init":
                # the depth-taking initialisers are documented for the tree representation only
                kind = op[1] if (self.rep_kind == "tree" or op[1] in ("standard", "generic")) else "standard"
                inds = list(self.initializer(kind).initialize(None, rep, self.random, op[2]))
                first = len(self.pool)
                self.pool.extend(i.genotype for i in inds)
                return Event(k, op, [], list(range(first, len(self.pool))))
            if k == "burn":
                for _ in range(op[1]):
                    self.random.randint(0, 100)
                return Event(k, op, [])
            if k == "direct":
                # another user of the same decider object: a tree representation sharing it creates a
                # program (the draws come from the decider's own source, like a burn)
                from geneticengine.representations.tree.treebased import TreeBasedRepresentation

                try:
                    TreeBasedRepresentation(self.grammar, self.decider).create_genotype(self.random)
                except Exception:  # noqa: BLE001 - a disturbance only; its own outcome is not judged here
                    pass
                return Event(k, op, [])
            if k == "foreign":
                # synthesis is asked for a class that was handed to extract_grammar but is no symbol of
                # the resulting grammar (not reachable from the start symbol): whatever the answer is,
                # it is no business of the grammar under test
                from geneticengine.representations.tree.treebased import random_node

                outside = [c for c in self.mat.considered() if c not in self.grammar.all_nodes]
                if outside:
                    try:
                        random_node(self.random, self.grammar, outside[op[1] % len(outside)], self.decider)
                    except Exception:  # noqa: BLE001
                        pass
                return Event(k, op, [])
            if k == "inspect":
                # the grammar is looked at (printed, summarised): no property forbids it, nothing may change
                try:
                    repr(self.grammar)
                    str(self.grammar)
                    self.grammar.get_grammar_properties_summary()
                except Exception:  # noqa: BLE001
                    pass
                return Event(k, op, [])
            if k == "sibling":
                # another grammar extracted in the same process from a subset of the same classes
                # (one concrete production left out and/or another starting symbol)
                self.mat.extract_sibling(op[1], op[2], op[3], len(op) > 4 and op[4])
                return Event(k, op, [])
            if not self.pool:
                self.skipped += 1
                return None
            if k == "edge":
                # a legal but unusual genotype: a copy of a pool genotype in which every third gene holds one of the
                # extreme values a gene can take (0, 1, sys.maxsize - 1, sys.maxsize)
                import copy as _c
                import sys as _s

                # (not for the stack representation: its mapping loop only ends when the starting symbol's
                # stack fills or after 100 "failures", and a short periodic genotype that keeps pushing
                # terminals does neither - a non-termination outside the listed properties, see DESIGN 8.2)
                if self.rep_kind not in ("ge", "sge"):
                    self.skipped += 1
                    return None
                v = [0, 0, 1, _s.maxsize - 1, _s.maxsize, 0][op[2] % 6]
                g = _c.deepcopy(self.pool[self._idx(op[1])])
                if isinstance(g.dna, dict):
                    g.dna = {key: [v if (j + op[2]) % 3 == 0 else w for j, w in enumerate(genes)] for key, genes in g.dna.items()}
                else:
                    g.dna = [v if (j + op[2]) % 3 == 0 else w for j, w in enumerate(g.dna)]
                self.pool.append(g)
                return Event("create", op, [], [len(self.pool) - 1])
            if k == "mutate":
                i = self._idx(op[1])
                g = rep.mutate(self.random, self.pool[i])
                self.pool.append(g)
                return Event(k, op, [i], [len(self.pool) - 1])
            if k == "crossover":
                i, j = self._idx(op[1]), self._idx(op[2])
                a, b = rep.crossover(self.random, self.pool[i], self.pool[j])
                self.pool.extend([a, b])
                return Event(k, op, [i, j], [len(self.pool) - 2, len(self.pool) - 1])
            if k == "map":
                i = self._idx(op[1])
                p = rep.genotype_to_phenotype(self.pool[i])
                return Event(k, op, [i], [], extra={"phenotype": p})
            if k == "search":
                seen, best = self.search(op[1], op[2], op[3])
                return Event(k, op, [], [], extra={"evaluated": seen, "best": best})
            if k == "warmstart":
                # a GP search seeded with programs of the pool through InjectInitialPopulationWrapper:
                # as raw programs, or as Individual objects - bound to this representation object or to
                # an equivalent one of an earlier search (tree representation only, as documented)
                if self.rep_kind != "tree":
                    self.skipped += 1
                    return None
                from geneticengine.representations.tree.operators import InjectInitialPopulationWrapper
                from geneticengine.solutions.individual import Individual

                items = [self.pool[self._idx(op[1] + j)] for j in range(op[2])]
                if op[3] != "programs":
                    r = self.rep if op[3] == "individuals-same-representation" else self.make_rep(self.make_decider(self.random))
                    items = [Individual(g, r) for g in items]
                init = InjectInitialPopulationWrapper(items, self.initializer("standard"))
                seen, best = self.search("gp", op[4], op[5], initializer=init)
                return Event("search", op, [], [], extra={"evaluated": seen, "best": best})
        except BaseException as e:  # noqa: BLE001
            if isinstance(e, (KeyboardInterrupt, SystemExit, MemoryError)):
                raise
            return Event(k, op, [], [], exc=e)
        raise ValueError(op)

    def initializer(self, kind):
        from geneticengine.algorithms.gp.operators.initializers import HalfAndHalfInitializer, StandardInitializer
        from geneticengine.representations.common import GenericPopulationInitializer
        from geneticengine.representations.tree.operators import (
            FullInitializer,
            GrowInitializer,
            PositionIndependentGrowInitializer,
            RampedHalfAndHalfInitializer,
        )

        d = self.max_depth
        if kind == "standard":
            return StandardInitializer()
        if kind == "generic":
            return GenericPopulationInitializer()
        if kind == "full":
            return FullInitializer(d)
        if kind == "grow":
            return GrowInitializer()
        if kind == "pigrow":
            return PositionIndependentGrowInitializer(d)
        if kind == "ramped":
            return RampedHalfAndHalfInitializer(d)
        if kind == "halfandhalf":
            return HalfAndHalfInitializer(FullInitializer(d).initialize, GrowInitializer().initialize)
        raise ValueError(kind)

    def phenotype(self, i):
        return self.rep.genotype_to_phenotype(self.pool[i])

    def search(self, alg, budget, popsize, fitness=None, minimize=False, tracker=None, step=None, initializer=None, budget_obj=None):
        from geneticengine.algorithms.gp.gp import GeneticProgramming
        from geneticengine.algorithms.hill_climbing import HC
        from geneticengine.algorithms.one_plus_one import OnePlusOne
        from geneticengine.algorithms.random_search import RandomSearch
        from geneticengine.evaluation.budget import EvaluationBudget
        from geneticengine.problems import SingleObjectiveProblem

        seen = []

        def ff(p):
            seen.append(p)
            return fitness(p) if fitness else float(len(seen) % 3)

        problem = SingleObjectiveProblem(ff, minimize)
        b = budget_obj or EvaluationBudget(budget)
        kw = dict(problem=problem, budget=b, representation=self.rep, random=self.random)
        if self.case.get("random_omitted"):
            del kw["random"]  # the algorithm's documented default: its own source with seed 0
        if tracker is not None:
            kw["tracker"] = tracker(problem)
        if alg == "rs":
            a = RandomSearch(**kw)
        elif alg == "1p1":
            a = OnePlusOne(**kw)
        elif alg == "hc":
            a = HC(number_of_mutations=max(1, popsize), **kw)
        elif alg == "gp":
            extra = {}
            if step is not None:
                extra["step"] = step
            if initializer is not None:
                extra["population_initializer"] = initializer
            a = GeneticProgramming(population_size=max(2, popsize), **kw, **extra)
        else:
            raise ValueError(alg)
        self.last_algorithm = a
        self.last_problem = problem
        best = a.search()
        return seen, best

    def cleanup(self):
        self.mat.cleanup()


# ---- strategies -------------------------------------------------------------------------
def ops_strategy(max_ops=10, with_search=False, with_burn=False, with_map=True, with_init=False, with_disturb=True, with_edge=False):
    idx = st.integers(0, 30)
    alts = [
        st.just(["create"]),
        st.just(["create"]),
        st.builds(lambda i: ["mutate", i], idx),
        st.builds(lambda i, j: ["crossover", i, j], idx, idx),
    ]
    if with_map:
        alts.append(st.builds(lambda i: ["map", i], idx))
    if with_init:
        alts.append(st.builds(lambda k, n: ["init", k, n], st.sampled_from(["standard", "generic", "full", "grow", "pigrow", "ramped", "halfandhalf"]), st.integers(1, 3)))
    if with_burn:
        alts.append(st.builds(lambda n: ["burn", n], st.integers(1, 5)))
    if with_disturb:
        alts.append(st.just(["direct"]))
        alts.append(st.just(["inspect"]))
        alts.append(st.builds(lambda i: ["foreign", i], st.integers(0, 8)))
    if with_edge:
        alts.append(st.builds(lambda i, v: ["edge", i, v], idx, st.integers(0, 11)))
        alts.append(st.builds(lambda i, v: ["edge", i, v], idx, st.integers(0, 11)))
        alts.append(st.builds(lambda k, d, s, f: ["sibling", k, d, s, f], st.integers(0, 12), st.booleans(), st.one_of(st.none(), st.integers(0, 12)), st.booleans()))
    if with_search:
        alts.append(
            st.builds(
                lambda a, b, p: ["search", a, b, p],
                st.sampled_from(["rs", "1p1", "hc", "gp"]),
                st.integers(1, 12),
                st.integers(2, 5),
            ),
        )
        alts.append(
            st.builds(
                lambda i, n, form, b, p: ["warmstart", i, n, form, b, p],
                idx,
                st.integers(1, 4),
                st.sampled_from(["programs", "individuals-same-representation", "individuals-of-an-equivalent-representation"]),
                st.integers(2, 12),
                st.integers(2, 5),
            ),
        )
    return st.lists(st.one_of(*alts), min_size=1, max_size=max_ops).map(lambda ops: [["create"]] + ops)


@st.composite
def world_cases(
    draw,
    flags: Flags | None = None,
    reps=REPS,
    deciders=DECIDERS,
    max_ops=10,
    depth_extras=(0, 0, 1, 2, 3, 5),
    with_search=False,
    with_burn=False,
    with_map=True,
    with_init=False,
    with_edge=False,
):
    spec = draw(specs(flags or Flags()))
    return {
        "spec": spec,
        "rep": draw(st.sampled_from(list(reps))),
        "decider": draw(st.sampled_from(list(deciders))),
        "depth_extra": draw(st.sampled_from(list(depth_extras))),
        "seed": draw(st.integers(0, 2**31)),
        "gene_length": draw(st.one_of(st.sampled_from([1, 2, 5, 16, 64, 256]), st.sampled_from([1, 2, 5, 16, 64, 256]), st.integers(1, 6000))),
        "ops": draw(ops_strategy(max_ops, with_search, with_burn, with_map, with_init, with_edge=with_edge)),
    }
