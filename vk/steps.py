"""JSON-encoded GP step compositions shared by C09, C14, C15, C16."""
from __future__ import annotations

from hypothesis import strategies as st


def build_step(j, hooks=None):
    """hooks: optional dict name -> class overriding a built-in step class (spies)."""
    from geneticengine.algorithms.gp.operators.combinators import ExclusiveParallelStep, IdentityStep, ParallelStep, SequenceStep
    from geneticengine.algorithms.gp.operators.crossover import GenericCrossoverStep
    from geneticengine.algorithms.gp.operators.elitism import ElitismStep
    from geneticengine.algorithms.gp.operators.mutation import GenericMutationStep
    from geneticengine.algorithms.gp.operators.novelty import NoveltyStep
    from geneticengine.algorithms.gp.operators.selection import LexicaseSelection, TournamentSelection

    hooks = hooks or {}
    k = j[0]
    if k == "elitism":
        return hooks.get("elitism", ElitismStep)()
    if k == "novelty":
        return hooks.get("novelty", NoveltyStep)()
    if k == "identity":
        return IdentityStep()
    if k == "tournament":
        return TournamentSelection(j[1], with_replacement=j[2])
    if k == "lexicase":
        return LexicaseSelection(epsilon=j[1])
    if k == "mutation":
        return GenericMutationStep(j[1])
    if k == "crossover":
        return GenericCrossoverStep(j[1])
    if k == "seq":
        return SequenceStep(*[build_step(x, hooks) for x in j[1]])
    if k == "par":
        return ParallelStep([build_step(x, hooks) for x in j[1]], list(j[2]))
    if k == "xpar":
        return ExclusiveParallelStep([build_step(x, hooks) for x in j[1]], list(j[2]))
    raise ValueError(j)


def step_str(j):
    k = j[0]
    if k in ("seq",):
        return "Seq(" + ", ".join(step_str(x) for x in j[1]) + ")"
    if k in ("par", "xpar"):
        return ("Par" if k == "par" else "XPar") + "([" + ", ".join(step_str(x) for x in j[1]) + f"], w={j[2]})"
    return k + ("" if len(j) == 1 else str(tuple(j[1:])))


def has_source_of_new(j):
    k = j[0]
    if k in ("novelty", "mutation", "crossover"):
        return True
    if k in ("seq", "par", "xpar"):
        return any(has_source_of_new(x) for x in j[1])
    return False


def leaf_steps(lexicase=False, max_tournament=6):
    leaves = [
        st.just(["elitism"]),
        st.just(["novelty"]),
        st.just(["identity"]),
        st.builds(lambda k, r: ["tournament", k, r], st.integers(1, max_tournament), st.booleans()),
        st.builds(lambda p: ["mutation", p], st.sampled_from([0.0, 0.5, 1.0])),
        st.builds(lambda p: ["crossover", p], st.sampled_from([0.0, 0.5, 1.0])),
    ]
    if lexicase:
        leaves.append(st.builds(lambda e: ["lexicase", e], st.booleans()))
    return st.one_of(*leaves)


def weights_strategy(n):
    w = st.one_of(st.integers(0, 5), st.sampled_from([0.5, 1.5, 2.5, 10, 90]))
    return st.lists(w, min_size=n, max_size=n).filter(lambda ws: sum(ws) > 0)


def step_strategy(max_depth=3, lexicase=False):
    def extend(children):
        def comb(kind, subs, ws):
            return [kind, subs, ws]

        subs = st.lists(children, min_size=1, max_size=3)
        return st.one_of(
            subs.map(lambda ss: ["seq", ss]),
            subs.flatmap(lambda ss: weights_strategy(len(ss)).map(lambda ws: ["par", ss, ws])),
            subs.flatmap(lambda ss: weights_strategy(len(ss)).map(lambda ws: ["xpar", ss, ws])),
        )

    return st.recursive(leaf_steps(lexicase), extend, max_leaves=6)
