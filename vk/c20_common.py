"""Shared by the C20 check and its kill-point child."""
from __future__ import annotations

import csv
import io
import os


def num(v):
    """Cases are plain JSON: the infinities are written as the strings "inf" / "-inf"."""
    return float(v) if isinstance(v, str) else v


class TableRep:
    def genotype_to_phenotype(self, g):
        return g


def extra_names(case):
    """Names of the extra fields. case["collide"] (a column name) renames the first extra field to an
    existing column: the documented merge then re-defines that column in place."""
    names = [f"Extra{k}" for k in range(case["n_extra"])]
    if names and case.get("collide"):
        names[0] = case["collide"]
    return names


def extra_field_fns(n, names=None, payload=""):
    """n distinct pure functions of the individual's program; `payload` is appended to every value
    (text a CSV writer has to quote: separators, quotes, line breaks of either kind)."""
    fns = {}
    for k in range(n):
        nm = names[k] if names else f"Extra{k}"
        fns[nm] = (lambda k: (lambda t, i, p: f"e{k}:{i.get_phenotype()[0]}:{sum(i.get_phenotype()[1]) * (k + 1)}{payload}"))(k)
    return fns


def custom_field_fns(kobj):
    d = {"Idx": lambda t, i, p: i.get_phenotype()[0]}
    for c in range(kobj):
        d[f"Obj{c}"] = (lambda c: (lambda t, i, p: i.get_fitness(p).fitness_components[c]))(c)
    d["Agg"] = lambda t, i, p: i.get_fitness(p).maximizing_aggregate
    return d


def build(case, path, extra_recorders_before=(), extra_recorders_after=()):
    """Builds problem, tracker with a CSVSearchRecorder writing to path, and the individuals."""
    from geneticengine.evaluation.recorder import CSVSearchRecorder
    from geneticengine.evaluation.sequential import SequentialEvaluator
    from geneticengine.evaluation.tracker import MultiObjectiveProgressTracker, SingleObjectiveProgressTracker
    from geneticengine.problems import MultiObjectiveProblem, SingleObjectiveProblem
    from geneticengine.solutions.individual import Individual

    k = case["objectives"]
    if k == 1 and not case.get("force_multi"):
        problem = SingleObjectiveProblem(lambda p: p[1][0], minimize=bool(case["minimize"][0]))
    else:
        problem = MultiObjectiveProblem(list(case["minimize"]), lambda p: list(p[1]))
    kwargs = {}
    if case["fields"] == "custom":
        kwargs["fields"] = custom_field_fns(k)
    if case["n_extra"] > 0:
        kwargs["extra_fields"] = extra_field_fns(case["n_extra"], extra_names(case), case.get("payload", ""))
    rec = CSVSearchRecorder(path, problem, only_record_best_individuals=case["only_best"], **kwargs)
    recorders = list(extra_recorders_before) + [rec] + list(extra_recorders_after)
    if isinstance(problem, SingleObjectiveProblem):
        tracker = SingleObjectiveProgressTracker(problem, SequentialEvaluator(), recorders=recorders)
    else:
        tracker = MultiObjectiveProgressTracker(problem, SequentialEvaluator(), recorders=recorders)
    rep = TableRep()
    inds = [Individual((i, tuple(num(x) for x in v)), rep) for i, v in enumerate(case["values"])]
    pre = case.get("prescored", 0)
    if pre:
        # the individuals were scored before on ANOTHER problem (an earlier search, co-evolution):
        # other values, and for pre == 2 more objectives than the logged problem
        kk = k + (1 if pre == 2 else 0)
        other = MultiObjectiveProblem([not m for m in (list(case["minimize"]) + [False])[:kk]], lambda p: [x * 10 + 7 for x in (list(p[1]) + [5])[:kk]])
        for _ in SequentialEvaluator().evaluate_async(other, inds[:: (1 if pre != 3 else 2)]):
            pass
        # (the individuals' fitness stores keep `other` alive for the whole history)
    return problem, tracker, inds, rec


def header_for(case):
    k = case["objectives"]
    if case["fields"] == "custom":
        h = ["Idx"] + [f"Obj{c}" for c in range(k)] + ["Agg"]
    else:
        h = ["Execution Time", "Phenotype"] + [f"Fitness{c}" for c in range(k)]
    h += [nm for nm in extra_names(case) if nm not in h]
    return h


def expected_row(case, idx, vec, aggregate):
    k = case["objectives"]
    vec = [num(x) for x in vec]
    comps = [float(x) for x in vec]
    if case["fields"] == "custom":
        row = [idx] + comps + [aggregate]
    else:
        row = ["<time>", (idx, tuple(vec))] + comps
    cols = header_for(case)
    cells = dict(zip(cols, row))  # the configured columns, then the extra fields by name (an extra
    for j, nm in enumerate(extra_names(case)):  # field named like a column re-defines it in place)
        cells[nm] = f"e{j}:{idx}:{sum(vec) * (j + 1)}{case.get('payload', '')}"
    return [str(cells[c]) for c in cols]


def read_raw(path) -> bytes:
    fd = os.open(path, os.O_RDONLY)
    try:
        chunks = []
        while True:
            b = os.read(fd, 1 << 16)
            if not b:
                break
            chunks.append(b)
        return b"".join(chunks)
    finally:
        os.close(fd)


def parse(raw: bytes):
    text = raw.decode()
    return list(csv.reader(io.StringIO(text, newline="")))


def mask_time(case, rows):
    if case["fields"] == "custom":
        return rows
    out = []
    for r in rows:
        r = list(r)
        if r and len(r) >= 1:
            r[0] = "<time>"
        out.append(r)
    return out
