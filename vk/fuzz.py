"""Coverage-guided driver (atheris / libFuzzer) for a Hypothesis-based facet.

usage: python -m vk.fuzz <PID> <facet> <seed> <runs> <out.json>

The facet's strategy and oracle are the same as in the Hypothesis tiers; only the search differs:
libFuzzer mutates the byte string that Hypothesis decodes into a case (`fuzz_one_input`), guided by
branch coverage of the `geneticengine` package (instrumented at import). The campaign starts from an
empty corpus in a fresh scratch directory, runs exactly <runs> inputs with `-seed=<seed>` (this pins
the campaign only approximately, the saved case is the reproducible unit) and writes the shard's
Stats as JSON. A violation is minimised at the byte level (chunk removal / zeroing, bounded) and
reported with the decoded case, which `./check <PID> --replay` re-executes without any fuzzer.

libFuzzer ends the process with _exit, so everything is written by the callback itself.
"""
from __future__ import annotations

import importlib
import json
import os
import pkgutil
import sys
import time

VERIF_DIR = os.path.dirname(os.path.dirname(os.path.abspath(__file__)))
sys.path.insert(0, os.path.join(VERIF_DIR, ".deps"))


def main():
    pid, facet_name, seed, runs, out = sys.argv[1], sys.argv[2], int(sys.argv[3]), int(sys.argv[4]), sys.argv[5]
    import atheris

    import logging

    logging.disable(logging.CRITICAL)
    import warnings

    warnings.simplefilter("ignore")
    with atheris.instrument_imports(include=["geneticengine"], enable_loader_override=False):
        import geneticengine

        for m in pkgutil.walk_packages(geneticengine.__path__, "geneticengine."):
            if any(x in m.name for x in (".sklearn", ".off_the_shelf", ".prelude", "geml")):
                continue
            try:
                importlib.import_module(m.name)
            except Exception:  # noqa: BLE001 - optional dependencies
                pass
    from hypothesis import given

    from vk.core import Known, PropertyViolation, Recorder, Stats, hyp_settings, to_jsonable

    mod = importlib.import_module(f"vk.props.{pid.lower()}")
    facet = next(f for f in mod.FACETS if f.name == facet_name)
    known = Known(pid)
    stats = Stats(facet.name)
    state = {"n": 0, "t0": time.time(), "shrinking": False, "want": None}

    def one(case):
        counting = not state["shrinking"]
        rec = Recorder(stats, known, counting)
        if counting:
            stats.cases += 1
        facet.run(case, rec)
        bad = rec.unlisted()
        if bad:
            raise PropertyViolation(bad[0][0], bad[0][1], case)

    @hyp_settings(1, shrink=False)
    @given(facet.strategy("thorough"))
    def test(case):
        one(case)

    fuzz_one = test.hypothesis.fuzz_one_input

    def fails(data):
        try:
            fuzz_one(data)
        except PropertyViolation as v:
            return v if (state["want"] is None or v.bucket == state["want"]) else None
        except BaseException:  # noqa: BLE001
            return None
        return None

    def minimise(data, v, budget_s=120.0):
        """ddmin-like byte minimisation: remove chunks, then zero bytes; keeps the same bucket."""
        state["shrinking"], state["want"] = True, v.bucket
        t0 = time.time()
        best, bestv = bytes(data), v
        size = max(1, len(best) // 2)
        while size >= 1 and time.time() - t0 < budget_s:
            i, progressed = 0, False
            while i < len(best) and time.time() - t0 < budget_s:
                cand = best[:i] + best[i + size :]
                w = fails(cand)
                if w is not None:
                    best, bestv, progressed = cand, w, True
                else:
                    i += size
            if not progressed:
                size //= 2
        for i in range(len(best)):
            if time.time() - t0 > budget_s:
                break
            if best[i] != 0:
                cand = best[:i] + b"\x00" + best[i + 1 :]
                w = fails(cand)
                if w is not None:
                    best, bestv = cand, w
        state["shrinking"] = False
        return best, bestv

    def finish(note):
        import shutil

        stats.notes.append(note)
        with open(out, "w") as f:
            json.dump(stats.to_dict(), f)
        shutil.rmtree(state.get("corpus", ""), ignore_errors=True)
        sys.stdout.flush()
        os._exit(0)

    def callback(data):
        state["n"] += 1
        try:
            fuzz_one(data)
        except PropertyViolation as v:
            _, v2 = minimise(data, v)
            stats.violations.append({"bucket": v2.bucket, "message": v2.message, "case": to_jsonable(v2.case)})
            finish(f"coverage-guided: violation after {state['n']} inputs, {time.time() - state['t0']:.1f}s; case minimised at the byte level")
        except BaseException as e:  # noqa: BLE001
            if isinstance(e, (KeyboardInterrupt, SystemExit)):
                raise
            stats.notes.append(f"coverage-guided: harness error {type(e).__name__}: {str(e)[:200]}")
            with open(out, "w") as f:
                json.dump({**stats.to_dict(), "harness_error": f"{type(e).__name__}: {str(e)[:500]}"}, f)
            os._exit(2)
        if state["n"] >= runs:
            finish(f"coverage-guided: {state['n']} inputs ({stats.cases} decoded into cases) in {time.time() - state['t0']:.1f}s, start corpus = 8 pseudo-random byte strings, libFuzzer seed {seed}")

    corpus = os.path.join(VERIF_DIR, ".fuzz", pid, f"{facet_name}-{seed}-{os.getpid()}")
    os.makedirs(corpus, exist_ok=True)
    state["corpus"] = corpus
    # Hypothesis rejects byte strings too short to decode a whole case, and libFuzzer grows inputs
    # slowly from an empty corpus: start from a few long pseudo-random strings (a function of the seed)
    import random as _random

    rnd = _random.Random(seed)
    for k in range(8):
        with open(os.path.join(corpus, f"start{k}"), "wb") as f:
            f.write(bytes(rnd.getrandbits(8) if rnd.random() < 0.5 else 0 for _ in range(512 << (k % 4))))
    argv = [sys.argv[0], corpus, f"-seed={seed}", f"-runs={runs * 2}", "-max_len=4096", "-len_control=0", f"-artifact_prefix={corpus}/", "-rss_limit_mb=4096", "-timeout=600", "-verbosity=0"]
    atheris.Setup(argv, callback)
    atheris.Fuzz()
    finish(f"coverage-guided: libFuzzer stopped after {state['n']} inputs")


if __name__ == "__main__":
    main()
