"""CLI: python -m vk.runner <ID> quick|thorough [--facet name]* | <ID> --replay <file>"""
from __future__ import annotations

import importlib
import json
import os
import sys


def main(argv):
    if len(argv) < 2:
        print(__doc__, file=sys.stderr)
        return 2
    pid = argv[0].upper()
    repo = os.environ.get("VK_REPO", "/repo")
    try:
        import geneticengine
        import hypothesis  # noqa: F401
    except Exception as e:  # noqa: BLE001
        print(f"HARNESS-ERROR: cannot import: {e}", file=sys.stderr)
        return 2
    if not os.path.abspath(geneticengine.__file__).startswith(os.path.abspath(repo) + os.sep):
        print(f"HARNESS-ERROR: geneticengine imported from {geneticengine.__file__}, expected under {repo}", file=sys.stderr)
        return 2
    import logging

    logging.disable(logging.CRITICAL)
    import warnings

    warnings.simplefilter("ignore")
    from vk import core

    modname = f"vk.props.{pid.lower()}"
    try:
        mod = importlib.import_module(modname)
    except ModuleNotFoundError as e:
        print(f"HARNESS-ERROR: no check module for {pid}: {e}", file=sys.stderr)
        return 2
    seed = int(os.environ.get("VERIF_SEED", "1"))
    if argv[1] == "--replay":
        path = argv[2]
        with open(path) as f:
            rp = json.load(f)
        found = core.replay_case(pid, mod, rp["facet"], rp["case"])
        if found is None:
            print(f"HARNESS-ERROR: unknown facet {rp['facet']}", file=sys.stderr)
            return 2
        known = core.Known(pid)
        bad = [(b, m) for b, m in found if not known.is_open(b)]
        for b, m in found:
            tag = "VIOLATION" if (b, m) in bad else "KNOWN-FINDING:"
            if tag == "VIOLATION":
                print(f"VIOLATION property={pid} replay={path}\n  bucket: {b}\n  {m}")
            else:
                print(f"KNOWN-FINDING: property={pid} {known.open_buckets[b]['what']} [bucket {b}]")
        if not found:
            print(f"{pid}: replay {path} does not violate the property on this tree")
        return 1 if bad else 0
    tier = argv[1]
    if tier not in ("quick", "thorough"):
        tier = os.environ.get("VERIF_TIER", "quick")
    only = [argv[i + 1] for i, a in enumerate(argv) if a == "--facet"]
    procs = int(os.environ.get("VK_PROCS", "16"))
    try:
        return core.run_property(
            pid, modname, tier, seed, mod.LEVEL, mod.RULE, mod.ASSUMPTIONS, procs=procs, only_facets=only or None,
        )
    except core.HarnessError as e:
        print(f"HARNESS-ERROR: {e}", file=sys.stderr)
        return 2


if __name__ == "__main__":
    try:
        rc = main(sys.argv[1:])
    except SystemExit:
        raise
    except BaseException as e:  # noqa: BLE001
        import traceback

        traceback.print_exc()
        print(f"HARNESS-ERROR: {type(e).__name__}: {e}", file=sys.stderr)
        rc = 2
    sys.stdout.flush()
    sys.stderr.flush()
    if rc == 2:
        # a harness error may leave worker threads/processes behind: do not wait for them
        from vk.core import kill_descendants

        kill_descendants()
        os._exit(2)
    sys.exit(rc)
