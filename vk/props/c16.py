"""C16 — elitism keeps the best: top-k selection and monotone best fitness."""
from __future__ import annotations

import itertools

from hypothesis import strategies as st

from vk.core import Facet
from vk.props.c15 import kinds_in, make_problem, make_world
from vk.steps import build_step, step_str

LEVEL = "exploration"
RULE = (
    "Facet A enumerates ALL populations of size <= 5 with fitness values in {0,1,2} x both directions x every elite count "
    "1..size, and Hypothesis adds populations of 1-12 table-driven individuals (ties, duplicates, the same object twice) given as "
    "list or Population object: ElitismStep must return exactly k individuals, a sub-multiset (by identity) of the input, and no "
    "excluded individual may be strictly better (raw fitness and direction) than an included one. Facet B: GP runs of 3-8 "
    "generations whose step is ParallelStep([elitism, rest...], weights) with generated weights and sizes; a spy elitism step "
    "records the slots it was asked for; in runs where it was asked for >= 1 in every generation the per-generation best "
    "fitness (from a spy recorder grouped by generation) must be monotone. Non-trivial = a population with a tie across the "
    "cut while minimising / a run with >= 3 generations; distinct by case hash."
)
ASSUMPTIONS = [
    "ties never fail: only 'no excluded strictly better than an included one' is required",
    "population passed as list or Population object (one-shot iterators are C15's subject)",
]


class TableRep:
    def genotype_to_phenotype(self, g):
        return g


def better(a, b, minimize):
    return a < b if minimize else a > b


def run_elitism(values, entries, k, minimize, form, rec, tag, number_form=None, prescored=False):
    from collections import Counter

    from vk.values import num

    values = [num(v) for v in values]  # "inf" / "-inf" in the JSON case: infinite fitness values

    from geneticengine.algorithms.gp.operators.elitism import ElitismStep
    from geneticengine.algorithms.gp.population import Population
    from geneticengine.evaluation.sequential import SequentialEvaluator
    from geneticengine.evaluation.tracker import SingleObjectiveProgressTracker
    from geneticengine.problems import SingleObjectiveProblem
    from geneticengine.random.sources import NativeRandomSource
    from geneticengine.solutions.individual import Individual

    from vk.values import as_form

    problem = SingleObjectiveProblem(lambda p: as_form(p[1], number_form), minimize=minimize)
    ev = SequentialEvaluator()
    rep = TableRep()
    table = [Individual((i, v), rep) for i, v in enumerate(values)]
    if prescored:
        from vk.values import prescore

        run_elitism.keepalive = prescore(table, minimize)
    pop = [table[i] for i in entries]
    inp = pop if form == "list" else Population(iter(pop), SingleObjectiveProgressTracker(problem, ev), 0)
    try:
        out = list(ElitismStep().apply(problem, ev, rep, NativeRandomSource(0), inp, k, 1))
    except Exception as e:  # noqa: BLE001
        rec.fail(f"C16/elitism/raised-{type(e).__name__}", f"ElitismStep on fitness {[values[i] for i in entries]} (k={k}, minimize={minimize}, {form}) raised {e!r}")
        return
    desc = f"fitness {[values[i] for i in entries]} (entries {entries}), k={k}, minimize={minimize}, {form}"
    if len(out) != k:
        rec.fail(f"C16/elitism/wrong-count/{'under' if len(out) < k else 'over'}", f"ElitismStep returned {len(out)} individuals for {desc}")
        return
    cin = Counter(id(x) for x in pop)
    cout = Counter(id(x) for x in out)
    if any(cout[i] > cin.get(i, 0) for i in cout):
        rec.fail("C16/elitism/not-a-sub-multiset", f"ElitismStep returned individuals not in the input (or more copies than given) for {desc}: {[o.genotype for o in out]}")
        return
    rest = cin - cout
    excluded = [x for x in pop if rest.get(id(x), 0) > 0]
    # each id counted once per remaining copy
    seen = Counter()
    exc_vals = []
    for x in pop:
        if seen[id(x)] < rest.get(id(x), 0):
            seen[id(x)] += 1
            exc_vals.append(x.genotype[1])
    inc_vals = [o.genotype[1] for o in out]
    for e in exc_vals:
        for i in inc_vals:
            if better(e, i, minimize):
                rec.fail(
                    f"C16/elitism/excluded-strictly-better/{'minimize' if minimize else 'maximize'}",
                    f"ElitismStep kept fitness {inc_vals} and dropped {exc_vals}: {e} is strictly better than {i} ({desc})",
                )
                return


class ExhaustiveElitism(Facet):
    name = "elitism_all_small_populations"
    enumerative = True

    def budget(self, tier):
        return (0, 4)

    def cases(self, tier, shard, nshards):
        n = 0
        top = 5 if tier == "quick" else 7
        for size in range(1, top + 1):
            for values in itertools.product((0, 1, 2), repeat=size):
                n += 1
                if n % nshards != shard:
                    continue
                for minimize in (False, True):
                    for k in range(1, size + 1):
                        yield {"values": list(values), "k": k, "minimize": minimize}

    def run(self, case, rec):
        vals = case["values"]
        run_elitism(vals, list(range(len(vals))), case["k"], case["minimize"], "list", rec, "exhaustive")
        if rec.stats.exhaustive is None:
            rec.stats.exhaustive = True
        s = sorted(vals, reverse=not case["minimize"])
        k = case["k"]
        if k < len(vals) and s[k - 1] == s[k] and case["minimize"]:
            rec.nontrivial(case)
        rec.sample(case, limit=2)


class GeneratedElitism(Facet):
    name = "elitism_generated_populations"

    def budget(self, tier):
        return (300, 2) if tier == "quick" else (2000, 16)

    def strategy(self, tier):
        from vk.values import NUMBER_FORMS, single_objective_values

        val = single_objective_values(infinities=True)
        return st.one_of(st.integers(1, 12), st.integers(1, 12 if tier == "quick" else 80)).flatmap(
            lambda n: st.builds(
                lambda values, entries, kk, minimize, form, nf: {"values": values, "entries": entries, "k": 1 + kk % len(entries), "minimize": minimize, "form": form, "number_form": nf},
                st.lists(val, min_size=n, max_size=n),
                st.lists(st.integers(0, n - 1), min_size=1, max_size=max(12, n)),
                st.integers(0, max(11, n - 1)),
                st.booleans(),
                st.sampled_from(["list", "population"]),
                st.sampled_from(NUMBER_FORMS),
            ),
        )

    def run(self, case, rec):
        rec.label("numbers:" + str(case.get("number_form")))
        pre = case["k"] % 3 == 1
        rec.label("prescored-under-another-problem" if pre else "fresh-individuals")
        run_elitism(case["values"], case["entries"], case["k"], case["minimize"], case["form"], rec, "generated", case.get("number_form"), pre)
        from vk.values import num

        vals = sorted((num(case["values"][i]) for i in case["entries"]), reverse=not case["minimize"])
        k = case["k"]
        if k < len(vals) and vals[k - 1] == vals[k]:
            rec.nontrivial(case)
        if any(isinstance(v, str) for v in case["values"]):
            rec.label("with-infinite-fitness")
        rec.label("form:" + case["form"], "minimize" if case["minimize"] else "maximize")
        rec.sample(case, limit=2)


class MonotoneBest(Facet):
    name = "gp_runs_best_fitness_monotone"

    def budget(self, tier):
        return (40, 6) if tier == "quick" else (100, 16)

    def strategy(self, tier):
        from vk.steps import leaf_steps, step_strategy, weights_strategy

        rest = st.lists(st.one_of(step_strategy(), st.just(["novelty"]), st.just(["seq", [["tournament", 3, False], ["mutation", 1.0]]])), min_size=1, max_size=2)
        return st.builds(
            lambda rs, ws, pop, gens, seed, minimize: {"step": ["par", [["elitism"]] + rs, ws[: len(rs) + 1]], "popsize": pop, "gens": gens, "seed": seed, "minimize": minimize},
            rest,
            st.lists(st.one_of(st.integers(1, 10), st.sampled_from([0.5, 2.5, 20])), min_size=3, max_size=3),
            st.integers(2, 14),
            st.integers(3, 8),
            st.integers(0, 2**31),
            st.booleans(),
        )

    def run(self, case, rec):
        import hashlib

        from geneticengine.algorithms.gp.gp import GeneticProgramming
        from geneticengine.algorithms.gp.operators.elitism import ElitismStep
        from geneticengine.evaluation.budget import SearchBudget
        from geneticengine.evaluation.recorder import SearchRecorder
        from geneticengine.evaluation.sequential import SequentialEvaluator
        from geneticengine.evaluation.tracker import SingleObjectiveProgressTracker
        from geneticengine.problems import SingleObjectiveProblem
        from vk.refmodel import canon, canon_str

        w = make_world(case["seed"])
        try:
            info = w.info
            minimize = case["minimize"]
            # (every third run on a tiny scale: fitness values far below any absolute epsilon)
            scale = 1e-26 if case["seed"] % 3 == 1 else 1.0
            rec.label("fitness-scale:" + str(scale))
            problem = SingleObjectiveProblem(lambda p: scale * float(hashlib.sha256(canon_str(canon(p, info)).encode()).digest()[0] % 13), minimize=minimize)
            asked = []

            class CountingElitism(ElitismStep):
                def iterate(self, problem, evaluator, representation, random, population, target_size, generation):
                    asked.append((generation, target_size))
                    yield from ElitismStep.iterate(self, problem, evaluator, representation, random, population, target_size, generation)

            per_gen = {}

            class Spy(SearchRecorder):
                def register(self, tracker, individual, problem, is_best):
                    g = individual.metadata.get("generation")
                    per_gen.setdefault(g, []).append(individual.get_fitness(problem).fitness_components[0])

            class GenBudget(SearchBudget):
                def __init__(self, g):
                    self.g, self.n = g, 0

                def is_done(self, tracker):
                    self.n += 1
                    return self.n > self.g

            j = case["step"]
            P = case["popsize"]
            tracker = SingleObjectiveProgressTracker(problem, SequentialEvaluator(), recorders=[Spy()])
            from geneticengine.algorithms.gp.operators.combinators import ParallelStep

            # only the top-level elitism step (which sees the complete previous generation) is counted
            subs = [CountingElitism()] + [build_step(x) for x in j[1][1:]]
            ws = list(j[2])
            pos = case["seed"] % len(subs)  # the elitism step at a generated position
            subs[0], subs[pos] = subs[pos], subs[0]
            ws[0], ws[pos] = ws[pos], ws[0]
            root = ParallelStep(subs, ws)
            if case["seed"] % 3 == 0:
                # the same composition behind another step: the parallel step is then handed a generator
                from geneticengine.algorithms.gp.operators.combinators import IdentityStep, SequenceStep

                root = SequenceStep(IdentityStep(), root)
            gp = GeneticProgramming(problem=problem, budget=GenBudget(case["gens"]), representation=w.rep, random=w.random, tracker=tracker, population_size=P, step=root)
            try:
                gp.search()
            except Exception as e:  # noqa: BLE001
                rec.discard()
                rec.label("discarded:" + type(e).__name__)
                return
            gens = sorted(g for g in per_gen if g is not None)
            asked_by_gen = {}
            for g, t in asked:
                asked_by_gen[g] = asked_by_gen.get(g, 0) + t
            rec.sample({"step": step_str(j), "popsize": P, "generations": len(gens), "elitism_slots": asked_by_gen}, limit=2)
            if not all(asked_by_gen.get(g, 0) >= 1 for g in gens if g >= 1):
                rec.label("no-elitism-slot-in-some-generation")
                return
            rec.label("elitism-slot-every-generation")
            if len(gens) >= 3:
                rec.nontrivial(case)
            best = [(min if minimize else max)(per_gen[g]) for g in gens]
            for a, b, g in zip(best, best[1:], gens[1:]):
                if better(a, b, minimize):
                    rec.fail(
                        f"C16/run/best-fitness-got-worse/{'minimize' if minimize else 'maximize'}",
                        f"GP(population_size={P}, step={step_str(j)}): best fitness per generation {best} got worse at generation {g} although elitism had {asked_by_gen.get(g)} slot(s) (minimize={minimize})",
                    )
                    return
        finally:
            w.cleanup()


class ElitismBesideSiblings(Facet):
    """One application of ParallelStep([... selection steps ..., elitism at a generated position]) to a
    table-driven population under a single- or multi-objective problem: whatever its sibling steps
    do with the population they are handed, the elitism step must return the best of the
    ParallelStep's INPUT (by the reference aggregate)."""

    name = "elitism_beside_sibling_selection_steps"

    def budget(self, tier):
        return (150, 2) if tier == "quick" else (1000, 16)

    def strategy(self, tier):
        from vk.values import exact_int_values

        sel = st.one_of(
            st.builds(lambda t, r: ["tournament", t, r], st.integers(1, 4), st.booleans()),
            st.builds(lambda e: ["lexicase", e], st.booleans()),
        )
        sib = st.one_of(sel, st.builds(lambda a, b: ["seq", [a, b]], sel, sel))
        return st.integers(1, 3).flatmap(
            lambda k: st.builds(
                lambda vecs, entries, sibs, pos, ws, n, minimize, form, multi: {
                    "values": vecs, "entries": entries, "siblings": sibs, "pos": pos, "weights": ws, "n": n, "minimize": minimize, "form": form, "multi": multi or k > 1,
                },
                st.lists(st.lists(exact_int_values(0, 5), min_size=k, max_size=k), min_size=2, max_size=8),
                st.lists(st.integers(0, 7), min_size=2, max_size=10),
                st.lists(sib, min_size=1, max_size=2),
                st.integers(0, 2),
                st.lists(st.integers(1, 5), min_size=3, max_size=3),
                st.integers(2, 12),
                st.lists(st.booleans(), min_size=k, max_size=k),
                st.sampled_from(["list", "list", "population"]),
                st.booleans(),
            ),
        )

    def run(self, case, rec):
        from geneticengine.algorithms.gp.operators.combinators import ParallelStep
        from geneticengine.algorithms.gp.operators.elitism import ElitismStep
        from geneticengine.algorithms.gp.population import Population
        from geneticengine.evaluation.sequential import SequentialEvaluator
        from geneticengine.evaluation.tracker import MultiObjectiveProgressTracker, SingleObjectiveProgressTracker
        from geneticengine.problems import MultiObjectiveProblem, SingleObjectiveProblem
        from geneticengine.random.sources import NativeRandomSource
        from geneticengine.solutions.individual import Individual

        vecs, minimize = case["values"], case["minimize"]
        multi = case["multi"]
        sibs = case["siblings"]
        if not multi:
            # lexicase selection is documented for multi-objective problems only
            sibs = [s for s in sibs if "lexicase" not in str(s)] or [["tournament", 2, False]]
            problem = SingleObjectiveProblem(lambda p: p[1][0], minimize=minimize[0])
        else:
            problem = MultiObjectiveProblem(list(minimize), lambda p: list(p[1]))

        def agg(vec):  # reference: maximising aggregate = sum of direction-adjusted components
            return sum(-v if m else v for v, m in zip(vec, minimize))

        ev, rep = SequentialEvaluator(), TableRep()
        table = [Individual((i, tuple(v)), rep) for i, v in enumerate(vecs)]
        pop = [table[i % len(table)] for i in case["entries"]]
        got = []

        class SpyElitism(ElitismStep):
            def iterate(self, problem, evaluator, representation, random, population, target_size, generation):
                out = list(ElitismStep.iterate(self, problem, evaluator, representation, random, population, target_size, generation))
                got.append((target_size, out))
                yield from out

        steps = [build_step(s) for s in sibs]
        pos = case["pos"] % (len(steps) + 1)
        steps.insert(pos, SpyElitism())
        ws = case["weights"][: len(steps)]
        tracker = (MultiObjectiveProgressTracker if multi else SingleObjectiveProgressTracker)(problem, ev)
        inp = list(pop) if case["form"] == "list" else Population(iter(list(pop)), tracker, 0)
        desc = f"ParallelStep([{', '.join('elitism' if i == pos else step_str(s) for i, s in enumerate(sibs[:pos] + [None] + sibs[pos:]))}], weights={ws}) on fitness {[list(p.genotype[1]) for p in pop]} (minimize={minimize}, {'multi' if multi else 'single'}-objective, target size {case['n']}, {case['form']})"
        rec.label("multi" if multi else "single", f"elitism-at:{'first' if pos == 0 else 'later'}", "with-lexicase" if "lexicase" in str(sibs) else "no-lexicase")
        try:
            list(ParallelStep(steps, ws).apply(problem, ev, rep, NativeRandomSource(case["n"]), inp, case["n"], 1))
        except Exception as e:  # noqa: BLE001 - sizes / selection preconditions are C15's and C17's subject
            rec.discard()
            rec.label("discarded:" + type(e).__name__)
            return
        rec.sample({"step": desc}, limit=2)
        for k, out in got:
            if k <= 0:
                continue
            if pos > 0 and len(pop) > k:
                rec.nontrivial((str(sibs), pos, tuple(map(tuple, vecs)), tuple(case["entries"]), k))
            kk = min(k, len(pop))
            ids = [id(x) for x in pop]
            for o in out:
                if id(o) not in ids:
                    rec.fail("C16/siblings/elite-not-from-the-input", f"{desc}: elitism returned an individual that is not in the input")
                    return
                ids.remove(id(o))
            if len(out) != kk:
                rec.fail("C16/siblings/elite-count", f"{desc}: elitism was asked for {k} and returned {len(out)} of an input of {len(pop)}")
                return
            rest = [x for x in pop if id(x) in ids]
            worst_in = min(agg(o.genotype[1]) for o in out)
            best_out = max((agg(x.genotype[1]) for x in rest), default=None)
            if best_out is not None and best_out > worst_in:
                rec.fail(
                    "C16/siblings/excluded-strictly-better-than-included",
                    f"{desc}: elitism kept aggregates {[agg(o.genotype[1]) for o in out]} although an input individual with aggregate {best_out} was left out",
                )
                return


class ElitismOnSynthesisedTrees(Facet):
    """ElitismStep on populations of programs the library synthesised itself (trees of different
    sizes and depths, carrying the library's node metadata), with fitness values on ordinary and on
    tiny scales: ranking must go by fitness alone."""

    name = "elitism_on_synthesised_trees"

    def budget(self, tier):
        return (100, 2) if tier == "quick" else (600, 8)

    def strategy(self, tier):
        return st.builds(
            lambda seed, n, k, minimize, scale, mod: {"seed": seed, "n": n, "k": k, "minimize": minimize, "scale": scale, "mod": mod},
            st.integers(0, 2**31),
            st.integers(2, 14),
            st.integers(1, 14),
            st.booleans(),
            st.sampled_from([1.0, 1.0, 1e-26, 1e-300, 1e12]),
            st.sampled_from([3, 13, 251]),
        )

    def run(self, case, rec):
        import hashlib

        from geneticengine.algorithms.gp.operators.elitism import ElitismStep
        from geneticengine.evaluation.sequential import SequentialEvaluator
        from geneticengine.problems import SingleObjectiveProblem
        from geneticengine.solutions.individual import Individual
        from vk.refmodel import canon, canon_depth, canon_str

        w = make_world(case["seed"])
        try:
            info = w.info
            scale, mod, minimize = case["scale"], case["mod"], case["minimize"]

            def raw(p):
                return hashlib.sha256(canon_str(canon(p, info)).encode()).digest()[0] % mod

            problem = SingleObjectiveProblem(lambda p: scale * float(raw(p)), minimize=minimize)
            ev = SequentialEvaluator()
            pop = [Individual(w.rep.create_genotype(w.random), w.rep) for _ in range(case["n"])]
            k = 1 + (case["k"] - 1) % len(pop)
            out = list(ElitismStep().apply(problem, ev, w.rep, w.random, list(pop), k, 1))
            rec.label("fitness-scale:" + str(scale))
            depths = {canon_depth(canon(i.get_phenotype(), info)) for i in pop}
            vals = [raw(i.get_phenotype()) for i in pop]
            if len(depths) >= 2 and len(set(vals)) >= 2 and k < len(pop):
                rec.nontrivial((case["seed"], case["n"], k, minimize, scale, mod))
            ids = [id(x) for x in pop]
            for o in out:
                if id(o) not in ids:
                    rec.fail("C16/synthesised/elite-not-from-the-input", f"elitism returned an individual that is not in the input (seed {case['seed']})")
                    return
                ids.remove(id(o))
            if len(out) != k:
                rec.discard()  # size is C15's subject
                return
            rest = [x for x in pop if id(x) in ids]
            key = (lambda x: -raw(x.get_phenotype())) if minimize else (lambda x: raw(x.get_phenotype()))
            if rest and max(map(key, rest)) > min(map(key, out)):
                b = max(rest, key=key)
                wst = min(out, key=key)
                rec.fail(
                    f"C16/synthesised/excluded-strictly-better-than-included/{'minimize' if minimize else 'maximize'}",
                    f"ElitismStep(k={k}) on {len(pop)} synthesised trees, fitness = {scale} * {[raw(i.get_phenotype()) for i in pop]} (minimize={minimize}): kept {canon_str(canon(wst.get_phenotype(), info))} "
                    f"(fitness {scale * raw(wst.get_phenotype())}, depth {canon_depth(canon(wst.get_phenotype(), info))}) but left out {canon_str(canon(b.get_phenotype(), info))} (fitness {scale * raw(b.get_phenotype())}, depth {canon_depth(canon(b.get_phenotype(), info))})",
                )
        finally:
            w.cleanup()


class ElitismAcrossShortLivedProblems(Facet):
    """The same individuals are ranked by ElitismStep under a succession of problems, each built inside
    a helper, used once and released (other direction, other fitness function): every ranking must
    go by the problem at hand - whatever an individual still remembers of a problem that is gone."""

    name = "elitism_across_short_lived_problems"

    def budget(self, tier):
        return (80, 2) if tier == "quick" else (500, 8)

    def strategy(self, tier):
        return st.builds(
            lambda vals, gens, k: {"values": vals, "generations": gens, "k": k},
            st.lists(st.integers(0, 30), min_size=3, max_size=10, unique=True),
            st.lists(st.tuples(st.booleans(), st.sampled_from(["identity", "negated", "mod7", "reversed-rank"])), min_size=2, max_size=8),
            st.integers(1, 9),
        )

    def run(self, case, rec):
        from geneticengine.algorithms.gp.operators.elitism import ElitismStep
        from geneticengine.evaluation.sequential import SequentialEvaluator
        from geneticengine.problems import SingleObjectiveProblem
        from geneticengine.random.sources import NativeRandomSource
        from geneticengine.solutions.individual import Individual

        rep = TableRep()
        vals = case["values"]
        inds = [Individual((i, v), rep) for i, v in enumerate(vals)]
        k = 1 + (case["k"] - 1) % (len(inds) - 1)
        fns = {"identity": lambda v: float(v), "negated": lambda v: float(-v), "mod7": lambda v: float(v % 7), "reversed-rank": lambda v: float(100 - 3 * v)}
        bad = []

        def one(g, minimize, fname):
            f = fns[fname]
            problem = SingleObjectiveProblem(lambda p: f(p[1]), minimize=minimize)
            out = list(ElitismStep().apply(problem, SequentialEvaluator(), rep, NativeRandomSource(0), list(inds), k, g))
            key = (lambda x: -f(x.genotype[1])) if minimize else (lambda x: f(x.genotype[1]))
            rest = [x for x in inds if not any(x is o for o in out)]
            if len(out) == k and rest and max(map(key, rest)) > min(map(key, out)):
                bad.append((g, minimize, fname, [o.genotype[1] for o in out], max(rest, key=key).genotype[1]))

        rec.sample(case, limit=2)
        for g, (minimize, fname) in enumerate(case["generations"]):
            one(g, minimize, fname)  # the problem object is released when one() returns
            if bad:
                g_, m_, f_, kept, left = bad[0]
                rec.fail(
                    "C16/short-lived-problems/excluded-strictly-better-than-included",
                    f"ranking #{g_} (fitness {f_} of {vals}, minimize={m_}, k={k}): ElitismStep kept {kept} and left out {left}, which is strictly better under this problem; earlier problems (all released): {case['generations'][:g_]}",
                )
                return
        if len(case["generations"]) >= 3:
            rec.nontrivial(case)


FACETS = [ExhaustiveElitism(), GeneratedElitism(), MonotoneBest(), ElitismBesideSiblings(), ElitismOnSynthesisedTrees(), ElitismAcrossShortLivedProblems()]
