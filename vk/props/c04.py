"""C04 — depth-bounded creation reaches exactly the grammar's bounded language."""
from __future__ import annotations

from hypothesis import strategies as st

from vk.core import Facet
from vk.refmodel import Language, TooLarge, canon, canon_depth, canon_is_full, canon_str, safe_canon
from vk.sources import Unbounded, enumerate_all
from vk.spec import Flags, spec_str, specs
from vk.world import World, exc_bucket

LEVEL = "exploration"
RULE = (
    "Hypothesis draws a finite-choice grammar (<= 3 abstract types, <= 3 fields, IntRange width <= 2, IntList/VarRange/FloatList "
    "<= 3 values, bool, ListSizeBetween(a,b<=2), tuples, unions, nested abstract types, feasible dependent refinements). For every "
    "depth d from the grammar minimum up to minimum+2 whose reference language has <= cap programs, ALL sequences of random "
    "decisions of TreeBasedRepresentation.create_genotype are enumerated with a scripted RandomSource (odometer) and the set "
    "of canonical programs is compared with the reference language computed by structural recursion: grow (MaxDepthDecider) "
    "must EQUAL language(d) (missing and extra reported separately); PI-grow must be a subset; full creation through "
    "FullInitializer(d) must equal the programs all of whose branches end at depth d on grammars where every abstract type "
    "is recursive and no list may be empty; the bare FullDecider(d) must stay inside language(d). Non-trivial = |language(d)| >= 5 "
    "on a recursive grammar; distinct by (spec, d, decider). A (spec,d) pair whose path enumeration hits the cap is only "
    "judged for 'extra' programs and marked not exhaustive."
)
ASSUMPTIONS = [
    "family is finite-choice by construction (no bare int/float/str, no bare lists); larger languages are skipped and counted",
    "depth = longest chain of nested grammar nodes; d ranges over [grammar.get_min_tree_depth(), +2]",
    "for the bare FullDecider only containment in language(d) is required (FullInitializer owns the exact 'full' claim)",
]

FL = Flags(
    finite_choice=True, max_abstract=3, max_concrete=5, min_extra_concrete=2, max_fields=3, max_list_size=2, floats=True, float_refined=True,
    dependent=True, infeasible=False, tuples=True, unions=True, unreachable=False, standalone_concretes=True, permute_considered=False,
)
FL_FULL = FL.replace(empty_lists=False, unions=False, dependent=False)


def _enumerate(w, make_and_create, cap):
    """Set of canon programs over all decision paths; returns (set, complete, errors)."""
    out = {}
    errors = []
    complete = False
    gen = enumerate_all(make_and_create, cap, max_width=64)
    n = 0
    while True:
        try:
            trace, p, exc = next(gen)
        except StopIteration as s:
            complete = bool(s.value)
            break
        n += 1
        if exc is not None:
            errors.append((trace, exc))
            if len(errors) >= 4:  # enough: every further failing path costs a deep recursion
                break
            continue
        c = safe_canon(p, w.info)
        out.setdefault(c, [t[2] for t in trace])
    return out, complete, errors, n


class GrowLanguage(Facet):
    name = "grow_equals_language"
    decider = "maxdepth"
    flags = FL

    def budget(self, tier):
        return (50, 8) if tier == "quick" else (400, 16)

    def caps(self, tier):
        return (3000, 400) if tier == "quick" else (120000, 5000)

    def strategy(self, tier):
        pc, lc = self.caps(tier)
        return st.builds(
            lambda spec, k: {"spec": spec, "rep": "tree", "decider": self.decider, "depth_extra": k, "seed": 0, "ops": [], "path_cap": pc, "lang_cap": lc},
            specs(self.flags),
            st.sampled_from([0, 0, 1, 1, 2]),
        )

    def run(self, case, rec):
        w = World(case)
        try:
            self._run(case, rec, w)
        finally:
            w.cleanup()

    def reference(self, w, d, lang):
        return lang.of_symbol(w.info.start, d)

    def create(self, w, d):
        def run(src):
            dec = w.make_decider(src, self.decider, d)
            return w.make_rep(dec, "tree").create_genotype(src)

        return run

    def _run(self, case, rec, w):
        if not w.productive():
            rec.discard()
            return
        info = w.info
        d = w.max_depth
        rec.label(f"k={case['depth_extra']}")
        lang = Language(info, cap=case["lang_cap"])
        try:
            ref = self.reference(w, d, lang)
        except TooLarge:
            rec.label("skipped:language-too-large")
            rec.stats.excluded["language-too-large"] += 1
            return
        if ref is None:
            rec.label("skipped:not-applicable")
            return
        try:
            got, complete, errors, npaths = _enumerate(w, self.create(w, d), case["path_cap"])
        except Unbounded as e:
            rec.label("skipped:unbounded-draw")
            rec.stats.excluded["unbounded-draw"] += 1
            rec.discard()
            return
        rec.stats.labels["paths"] += npaths
        rec.label("paths-complete" if complete else "paths-truncated")
        if rec.stats.exhaustive is None:
            rec.stats.exhaustive = True
        if not complete:
            rec.stats.exhaustive = False
        rec.sample({"spec": spec_str(case["spec"]), "d": d, "decider": self.decider, "language": len(ref), "reached": len(got), "paths": npaths, "complete": complete})
        for trace, exc in errors[:2]:
            rec.fail(
                f"C04/{getattr(self, 'bucket_as', self.name)}/path-raised/{exc_bucket(exc)}",
                f"decision path {[t[2] for t in trace]} of {self.decider} creation at d={d} raised {exc!r}; grammar {spec_str(case['spec'])}",
            )
        # root-cause attribution: a wrong recursive set (C05's subject) changes what the deciders prefer;
        # violations that come with it are not the recorded FullDecider-heuristic findings
        lib_rec = {w.mat.names[x] for x in w.grammar.recursive_prods if x in w.mat.names}
        ref_rec = {n for n in info.recursive() if n in info.registered()}
        self.attribution = "" if lib_rec == ref_rec else "/grammar-reports-wrong-recursive-set"
        self.compare(case, rec, w, d, ref, got, complete)
        if len(ref) >= 5 and info.recursive():
            rec.nontrivial((case["spec"], d, self.decider))

    def compare(self, case, rec, w, d, ref, got, complete):
        extra = [c for c in got if c not in ref]
        for c in extra[:2]:
            too_deep = c == ("?", "too-deep-to-traverse") or canon_depth(c) > d
            why = "deeper than d" if too_deep else "not in the reference language"
            rec.fail(
                f"C04/{getattr(self, 'bucket_as', self.name)}/extra/{'too-deep' if too_deep else 'not-in-reference-set'}{getattr(self, 'attribution', '')}",
                f"{self.decider} creation at d={d} reaches {canon_str(c)} ({why}) via draws {got[c]}; grammar {spec_str(case['spec'])}",
            )
        if complete:
            missing = [c for c in ref if c not in got]
            if missing:
                only_empty = all(_has_empty_list(c) for c in missing)
                ex = sorted(missing, key=lambda c: (canon_depth(c), len(str(c))))[0]
                rec.fail(
                    f"C04/{getattr(self, 'bucket_as', self.name)}/missing/{'only-programs-with-an-empty-list' if only_empty else 'general'}{getattr(self, 'attribution', '')}",
                    f"{self.decider} creation at d={d}: {len(missing)} of {len(ref)} valid programs are unreachable over all {len(got)} reachable ones, e.g. {canon_str(ex)}; grammar {spec_str(case['spec'])}",
                )


def _has_empty_list(c):
    if not isinstance(c, tuple):
        return False
    if c == ("L",):
        return True
    return any(_has_empty_list(x) for x in c[1:])


class GrowLanguageAfterRedeclaration(GrowLanguage):
    """A first grammar is extracted and used to create programs; then the refinement of one finite
    field is re-declared the documented way (Prod.__init__.__annotations__[f] = Annotated[T, R2]) on
    the same classes and a new grammar is extracted: grow creation from the NEW grammar must reach
    exactly the NEW bounded language."""

    name = "grow_equals_language_after_redeclaration"
    bucket_as = "grow_equals_language"  # same oracle, same root causes as the plain facet

    def budget(self, tier):
        return (30, 4) if tier == "quick" else (200, 8)

    def run(self, case, rec):
        from geneticengine.random.sources import NativeRandomSource
        from vk.spec import redeclare

        w1 = World(case)
        try:
            if not w1.productive():
                rec.discard()
                return
            try:  # first use of the classes
                src = NativeRandomSource(1)
                rep = w1.make_rep(w1.make_decider(src, "maxdepth", w1.min_depth + 2), "tree")
                for _ in range(4):
                    rep.create_genotype(src)
            except Exception:  # noqa: BLE001
                pass
            cands = []
            for c in case["spec"]["concretes"]:
                for fn, ft in c["fields"]:
                    if ft[0] == "ann" and ft[2][0] in ("IntRange", "IntList", "VarRange"):
                        cands.append((c["name"], fn, ft))
            if not cands:
                rec.discard()
                return
            cname, fn, ft = cands[len(case["spec"]["concretes"]) % len(cands)]
            new_r = {"IntRange": ["IntRange", 5, 6], "IntList": ["IntList", [7, 9]], "VarRange": ["VarRange", ["p", "q"]]}[ft[2][0]]
            if new_r == ft[2]:
                rec.discard()
                return
            spec2 = redeclare(w1.mat, cname, fn, ["ann", ft[1], new_r])
            case2 = {**case, "spec": spec2}
            w2 = World(case2, mat=w1.mat)
            rec.label("redeclared:" + ft[2][0])
            self._run(case2, rec, w2)
        finally:
            w1.cleanup()


class PIGrowSubset(GrowLanguage):
    name = "pigrow_subset_of_language"
    decider = "pigrow"

    def budget(self, tier):
        return (40, 4) if tier == "quick" else (300, 16)

    def compare(self, case, rec, w, d, ref, got, complete):
        GrowLanguage.compare(self, case, rec, w, d, ref, got, False)


class FullDeciderSubset(PIGrowSubset):
    name = "fulldecider_subset_of_language"
    decider = "full"


class FullInitializerExact(GrowLanguage):
    name = "fullinitializer_equals_full_language"
    decider = "full"
    flags = FL_FULL

    def budget(self, tier):
        return (60, 6) if tier == "quick" else (400, 16)

    def reference(self, w, d, lang):
        info = w.info
        rec_syms = info.recursive()
        reach = info.reachable()
        if not all(a in rec_syms for a in info.abstract_names if a in reach):
            return None
        allp = lang.of_symbol(info.start, d)
        full = frozenset(c for c in allp if canon_is_full(c, d))
        # when no program has all branches ending at depth d the statement makes no claim
        return full or None

    def create(self, w, d):
        from geneticengine.problems import SingleObjectiveProblem
        from geneticengine.representations.tree.operators import FullInitializer

        problem = SingleObjectiveProblem(lambda p: 0.0)

        def run(src):
            dec = w.make_decider(src, "maxdepth", d)
            rep = w.make_rep(dec, "tree")
            inds = list(FullInitializer(max_depth=d).initialize(problem, rep, src, 1))
            return inds[0].get_phenotype()

        return run


FACETS = [GrowLanguage(), PIGrowSubset(), FullDeciderSubset(), FullInitializerExact(), GrowLanguageAfterRedeclaration()]
