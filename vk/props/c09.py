"""C09 — operators and steps never modify their inputs."""
from __future__ import annotations

from hypothesis import strategies as st

from vk.core import Facet
from vk.refmodel import canon, canon_depth, canon_str, nodes
from vk.spec import Flags, spec_str, specs
from vk.steps import build_step, step_str, step_strategy
from vk.world import World, is_library_error

LEVEL = "exploration"
RULE = (
    "Hypothesis draws a grammar, one of five representations, a seed, an evaluated population of 2-8 individuals (phenotypes "
    "mapped and fitness cached BEFORE the snapshot) and a history of up to 6 generations, each an arbitrary nesting (<= 3) of "
    "the built-in steps (elitism, novelty, tournament, mutation, crossover, identity, sequence, parallel, exclusive parallel) "
    "or a raw mutate/crossover call; the fully consumed output of one step is the input of the next and ALL earlier "
    "populations stay alive. After every operation a deep, identity-free snapshot of every individual of every earlier "
    "population (canonical program, per-node gengy_labeled/nodes/distance_to_term/weighted_nodes, type index as {type: count}, "
    "synthesis-context fields, gengy_init_values, gene containers by value, cached fitness) must be unchanged. Non-trivial = a "
    "step that produced a genotype different from all inputs on programs of depth >= 2; distinct by (representation, step, "
    "population canon)."
)
ASSUMPTIONS = [
    "Individual.metadata is not part of the snapshot (the statement lists program, genes, node metadata, cached fitness)",
    "steps that raise on a sound input are discarded here (population-size defects of the combinators are C15's business)",
    "dSGE genotypes are snapshotted after their first completed mapping (on-demand extension is an allowed side effect)",
]


def node_meta(n, info):
    d = getattr(n, "__dict__", {})
    out = {}
    for k in ("gengy_labeled", "gengy_nodes", "gengy_distance_to_term", "gengy_weighted_nodes"):
        out[k] = d.get(k, "<unset>")
    ttw = d.get("gengy_types_this_way")
    if ttw is not None:
        out["types"] = tuple(sorted((getattr(t, "__name__", repr(t)), len(v)) for t, v in ttw.items() if v))
    ctx = d.get("gengy_synthesis_context")
    if ctx is not None:
        out["ctx"] = (ctx.depth, ctx.nodes, ctx.expansions, tuple(sorted((k, repr(canon(v, info))) for k, v in ctx.dependent_values.items())))
    iv = d.get("gengy_init_values")
    if iv is not None:
        out["init"] = repr(canon(list(iv), info))
    return tuple(sorted(out.items()))


def snapshot_individual(ind, info, rep, problem):
    g = ind.genotype
    if rep == "tree":
        genes = None
    elif rep in ("ge", "stack"):
        genes = tuple(g.dna)
    else:
        genes = tuple(sorted((repr(k), tuple(v)) for k, v in g.dna.items()))
    p = ind.phenotype
    pc = canon(p, info) if p is not None else None
    meta = tuple(node_meta(n, info) for n in nodes(p, info)) if p is not None else ()
    lists_meta = []
    fit = None
    if ind.has_fitness(problem):
        f = ind.get_fitness(problem)
        fit = (f.maximizing_aggregate, tuple(f.fitness_components))
    return {"genes": genes, "program": pc, "node_meta": meta, "fitness": fit}


def diff_snap(a, b):
    for k in ("genes", "program", "fitness", "node_meta"):
        if a[k] != b[k]:
            return k
    return None


@st.composite
def histories(draw, reps, concrete_start=True):
    fl = Flags(dependent=False, user_mh=False, max_concrete=6, concrete_start=concrete_start, min_extra_concrete=2 if concrete_start == "always" else 0,
               bare_lists=concrete_start != "always", max_list_size=3 if concrete_start != "always" else 2)
    spec = draw(specs(fl))
    rep = draw(st.sampled_from(reps))
    n_gen = draw(st.integers(1, 6))
    gens = []
    for _ in range(n_gen):
        if draw(st.integers(0, 4)) == 0:
            gens.append(["raw", draw(st.sampled_from(["mutate", "crossover"])), draw(st.integers(0, 7)), draw(st.integers(0, 7))])
        else:
            gens.append(["step", draw(step_strategy())])
    decider = draw(st.sampled_from(["maxdepth", "pigrow"]))
    # (PI-grow fills the whole depth: one level less keeps populations of such trees affordable)
    extras = ([1, 2, 3, 4] if decider == "maxdepth" else [1, 2, 3]) if concrete_start != "always" else [1, 1, 2]
    return {
        "spec": spec,
        "rep": rep,
        "decider": decider,
        "depth_extra": draw(st.sampled_from(extras)),
        "seed": draw(st.integers(0, 2**31)),
        "gene_length": draw(st.sampled_from([8, 64, 256])),
        "ops": [],
        "popsize": draw(st.integers(2, 8)),
        "minimize": draw(st.booleans()),
        "generations": gens,
    }


class Histories(Facet):
    name = "step_histories"
    reps = ("tree", "ge", "sge", "dsge", "stack")

    def budget(self, tier):
        return (120, 8) if tier == "quick" else (500, 16)

    def strategy(self, tier):
        return histories(self.reps)

    def run(self, case, rec):
        try:
            w = World(case)
        except Exception:  # noqa: BLE001
            rec.discard()
            return
        try:
            self._run(case, rec, w)
        finally:
            w.cleanup()

    def _run(self, case, rec, w):
        from geneticengine.evaluation.sequential import SequentialEvaluator
        from geneticengine.problems import SingleObjectiveProblem
        from geneticengine.solutions.individual import Individual

        rep = case["rep"]
        if not w.productive():
            rec.discard()
            return
        try:
            w.build()
        except Exception:  # noqa: BLE001
            rec.discard()
            return
        info = w.info
        rec.label("rep:" + rep)

        def ff(p):
            return float(len(repr(canon(p, info))) % 5)

        problem = SingleObjectiveProblem(ff, minimize=case["minimize"])
        evaluator = SequentialEvaluator()

        def prepare(inds):
            """map + evaluate, so that cache filling is not mistaken for modification."""
            good = []
            for ind in inds:
                try:
                    ind.get_phenotype()
                    evaluator.evaluate(problem, [ind])
                    good.append(ind)
                except Exception as e:  # noqa: BLE001
                    if not is_library_error(e):
                        rec.discard()
                    continue
            return good

        try:
            first = [Individual(w.rep.create_genotype(w.random), w.rep) for _ in range(case["popsize"])]
            if rep == "tree" and case["seed"] % 3 == 0:
                # some individuals hold programs the user wrote out by hand (injected seeds): the same
                # structure, built through the constructors, carrying nothing the library attached
                from vk.refmodel import handmade_copy

                first = [Individual(handmade_copy(i.genotype, info), w.rep) if k % 2 == 0 else i for k, i in enumerate(first)]
                rec.label("with-hand-written-programs")
            pop = prepare(first)
        except Exception:  # noqa: BLE001
            rec.discard()
            return
        if len(pop) < 2:
            rec.discard()
            return
        alive = [pop]  # all populations stay alive
        snaps = [[snapshot_individual(i, info, rep, problem) for i in pop]]
        rec.sample({"spec": spec_str(case["spec"]), "rep": rep, "popsize": len(pop), "generations": [g if g[0] == "raw" else step_str(g[1]) for g in case["generations"]]})

        for gi, gen in enumerate(case["generations"]):
            cur = alive[-1]
            desc = gen if gen[0] == "raw" else step_str(gen[1])
            try:
                if gen[0] == "raw":
                    a, b = cur[gen[2] % len(cur)], cur[gen[3] % len(cur)]
                    if gen[1] == "mutate":
                        out = [Individual(w.rep.mutate(w.random, a.genotype), w.rep)]
                    else:
                        g1, g2 = w.rep.crossover(w.random, a.genotype, b.genotype)
                        out = [Individual(g1, w.rep), Individual(g2, w.rep)]
                    new = out + list(cur)[: max(0, len(cur) - len(out))]
                else:
                    step = build_step(gen[1])
                    new = list(step.apply(problem, evaluator, w.rep, w.random, list(cur), len(cur), gi))
            except Exception as e:  # noqa: BLE001
                rec.discard()
                rec.label("discarded-step:" + type(e).__name__)
                new = None
            # judge every earlier population
            for pi, (p_inds, p_snaps) in enumerate(zip(alive, snaps)):
                for ii, (ind, s0) in enumerate(zip(p_inds, p_snaps)):
                    s1 = snapshot_individual(ind, info, rep, problem)
                    what = diff_snap(s0, s1)
                    if what:
                        rec.fail(
                            f"C09/input-modified/{rep}/{what}",
                            f"after generation {gi} ({desc}) individual {ii} of population {pi} changed in its {what}: before {_brief(s0, what)} after {_brief(s1, what)}; grammar {spec_str(case['spec'])}",
                        )
                        p_snaps[ii] = s1
            if new is None:
                continue
            before = {repr(s["genes"] if s["genes"] is not None else s["program"]) for s in snaps[-1]}
            new = prepare([i for i in new if isinstance(i, Individual)])
            if len(new) < 2:
                rec.label("generation-too-small")
                break
            alive.append(new)
            snaps.append([snapshot_individual(i, info, rep, problem) for i in new])
            after = {repr(s["genes"] if s["genes"] is not None else s["program"]) for s in snaps[-1]}
            if after - before and any(s["program"] is not None and canon_depth(s["program"]) >= 2 for s in snaps[-1]):
                rec.nontrivial((rep, repr(desc), tuple(sorted(after))[:3]))
            rec.label("generation-judged")


def _brief(s, what):
    v = s[what]
    if what == "program":
        return canon_str(v)
    r = repr(v)
    return r if len(r) < 300 else r[:297] + "..."


class TreeConcreteStart(Histories):
    """Tree representation with a recursive production as start symbol: only then does tree
    crossover reuse inner nodes of the other parent (donor subtrees) instead of synthesising
    fresh material, so aliasing between offspring and parents becomes observable."""

    name = "step_histories_tree_concrete_start"
    reps = ("tree",)

    def budget(self, tier):
        return (80, 4) if tier == "quick" else (400, 16)

    def strategy(self, tier):
        return histories(self.reps, concrete_start="always")


class DsgeChildrenMutated(Histories):
    """dSGE crossover children hold EMPTY gene lists for symbols their donor parent never read; they
    are mapped, evaluated and then mutated several times (the mutation may pick such an empty list):
    whatever the operator does about it, the genes of the individual it was given stay what they were."""

    name = "dsge_crossover_children_mutated"
    reps = ("dsge",)

    def budget(self, tier):
        return (60, 4) if tier == "quick" else (400, 8)

    def strategy(self, tier):
        block = st.builds(
            lambda i, j, ms: [["raw", "crossover", i, j]] + [["raw", "mutate", m, 0] for m in ms],
            st.integers(0, 7),
            st.integers(0, 7),
            st.lists(st.integers(0, 2), min_size=2, max_size=5),
        )
        return st.builds(
            lambda c, blocks: {**c, "generations": [g for b in blocks for g in b]},
            histories(self.reps),
            st.lists(block, min_size=1, max_size=3),
        )


class SelectionContainers(Facet):
    """Selection steps (tournament, lexicase, elitism) and combinators over them must not modify the
    population CONTAINER they are given either: after the step the caller's list holds the same
    individuals in the same order (multi-objective problems included, so lexicase is exercised)."""

    name = "selection_does_not_modify_the_given_population"

    def budget(self, tier):
        return (150, 3) if tier == "quick" else (800, 8)

    def strategy(self, tier):
        sel = st.one_of(
            st.builds(lambda e: ["lexicase", e], st.booleans()),
            st.builds(lambda k, r: ["tournament", k, r], st.integers(1, 4), st.booleans()),
            st.just(["elitism"]),
            st.just(["identity"]),
        )
        comp = st.one_of(
            sel,
            st.lists(sel, min_size=1, max_size=3).map(lambda ss: ["par", ss, [1] * len(ss)]),
            st.lists(sel, min_size=1, max_size=2).map(lambda ss: ["seq", ss]),
            st.lists(sel, min_size=1, max_size=2).map(lambda ss: ["seq", [["par", ss, [1] * len(ss)]]]),
        )
        return st.integers(2, 9).flatmap(
            lambda n: st.builds(
                lambda vectors, step, kk, seed: {"vectors": vectors, "step": step, "k": 1 + kk % n, "seed": seed},
                # (an objective may be NaN - written "nan" in the JSON case - for some individuals)
                st.lists(st.lists(st.one_of(st.integers(0, 5), st.integers(0, 5), st.integers(0, 5), st.just("nan")), min_size=2, max_size=2), min_size=n, max_size=n),
                comp,
                st.integers(0, 8),
                st.integers(0, 2**31),
            ),
        )

    def run(self, case, rec):
        from geneticengine.evaluation.sequential import SequentialEvaluator
        from geneticengine.problems import MultiObjectiveProblem
        from geneticengine.random.sources import NativeRandomSource
        from geneticengine.solutions.individual import Individual

        class TableRep:
            def genotype_to_phenotype(self, g):
                return g

        rep = TableRep()
        problem = MultiObjectiveProblem([False, True], lambda p: list(p[1]))
        ev = SequentialEvaluator()
        inds = [Individual((i, tuple(float(x) if isinstance(x, str) else x for x in v)), rep) for i, v in enumerate(case["vectors"])]
        ev.evaluate(problem, inds)
        other = None
        if case["seed"] % 2 == 0:
            # ... and they carry a cached fitness for ANOTHER problem as well (kept alive here)
            from geneticengine.problems import SingleObjectiveProblem

            other = SingleObjectiveProblem(lambda p: float(p[0]) * 2.0 + 1.0)
            ev.evaluate(other, inds)
            other_before = [x.get_fitness(other).fitness_components[0] if x.has_fitness(other) else None for x in inds]
            rec.label("also-scored-under-another-problem")
            if not all(x.has_fitness(problem) and x.has_fitness(other) for x in inds):
                rec.fail(
                    "C09/input-modified/table/fitness-cached-for-another-problem",
                    "evaluating individuals for a second problem dropped the fitness they had cached for the first one (both problems still exist)",
                )
                return
        given = list(inds)
        if any(isinstance(x, str) for v in case["vectors"] for x in v):
            rec.label("with-NaN-objective")
        before = [id(x) for x in given]
        fit_before = [tuple(x.get_fitness(problem).fitness_components) if x.has_fitness(problem) else None for x in given]
        rec.label(*["has:" + k for k in sorted(_kinds(case["step"]))])
        rec.sample({"step": step_str(case["step"]), "population": case["vectors"], "k": case["k"]}, limit=3)
        try:
            out = list(build_step(case["step"]).apply(problem, ev, rep, NativeRandomSource(case["seed"]), given, case["k"], 1))
        except Exception as e:  # noqa: BLE001
            rec.discard()
            rec.label("discarded:" + type(e).__name__)
            out = None
        after = [id(x) for x in given]
        if after != before:
            rec.fail(
                "C09/population-container-modified/" + ("shrunk" if len(after) < len(before) else ("reordered" if sorted(after) == sorted(before) else "changed")),
                f"{step_str(case['step'])} asked for {case['k']} of {len(before)} individuals left the caller's population list with {len(after)} entries (removed indices {[i for i, x in enumerate(before) if x not in after]})",
            )
        elif [tuple(x.get_fitness(problem).fitness_components) if x.has_fitness(problem) else None for x in given] != fit_before:
            rec.fail("C09/input-modified/table/fitness", f"{step_str(case['step'])} changed a cached fitness of the given individuals")
        elif other is not None and [x.get_fitness(other).fitness_components[0] if x.has_fitness(other) else None for x in inds] != other_before:
            rec.fail("C09/input-modified/table/fitness-cached-for-another-problem", f"{step_str(case['step'])} (run for one problem) dropped or changed the fitness the given individuals had cached for another, still existing problem")
        if len({tuple(v) for v in case["vectors"]}) >= 3 and case["k"] >= 2:
            rec.nontrivial(case)


def _kinds(j):
    out = {j[0]}
    if j[0] in ("seq", "par", "xpar"):
        for x in j[1]:
            out |= _kinds(x)
    return out


FACETS = [Histories(), TreeConcreteStart(), SelectionContainers(), DsgeChildrenMutated()]
