"""C05 — grammar analysis is exact: productions, minimum depths, recursion, reachability."""
from __future__ import annotations

import dataclasses
import importlib
import typing

from hypothesis import strategies as st

from vk.core import Facet
from vk.refmodel import INF, Language, SpecInfo, TooLarge, canon_depth
from vk.spec import BASES, Flags, materialise, spec_str, specs, te_forms

LEVEL = "exploration"
RULE = (
    "Hypothesis draws class hierarchies (multi-level abstract types, unreachable classes, permuted considered lists, fields of "
    "base/list/annotated/union/tuple type, self and mutual recursion; expansion-depthing on class-field-only hierarchies); the "
    "extracted Grammar is compared with an independent reference computed from the spec: alternatives[A] == direct subtypes "
    "among the supplied classes (as a set, no duplicates); distanceToTerminal[s] == least-fixpoint minimum depth (cross-checked "
    "against brute-force enumeration of the bounded language on finite-choice specs); recursive_prods == symbols on a cycle "
    "of the derivation graph; usable_grammar() raises nothing, keeps exactly the reachable symbols and the same distances. "
    "A second facet imports every shipped grammar (geml.grammars.*, tests, examples) into the same reference. Non-trivial = >= 2 "
    "abstract types, or recursion, or an unreachable class; distinct by spec hash."
)
ASSUMPTIONS = [
    "hierarchies use documented declaration forms only; nested abstract classes carry @abstract",
    "tree mode: builtins 0, node 1 + max(fields), list that may be empty 0, union = min, tuple = max",
    "expansion mode judged only on class-field-only hierarchies (docs define it there)",
]


def _culprit(info: SpecInfo, g, classes):
    """Symbol with the smallest reference minimum depth whose reported distance differs."""
    md = info.min_depths()
    bad = []
    for n in sorted(info.registered()):
        cls = classes[n]
        lib = g.distanceToTerminal.get(cls)
        if lib is None:
            continue
        ref = md[n]
        if ref == INF:
            ref = 1000000
        if lib != ref:
            bad.append((md[n], n, lib, ref))
    if not bad:
        return None
    bad.sort(key=lambda x: (x[0], info.is_abstract(x[1]), x[1]))
    return bad[0]


def _field_causes(info: SpecInfo, g, mat, n):
    """Primitive reasons why fields of concrete symbol n are measured differently."""
    if n not in info.fields:
        return ["abstract"]
    from geneticengine.grammar.utils import get_arguments

    md = info.min_depths()
    pybase = {"int": int, "float": float, "str": str, "bool": bool}
    args = dict(get_arguments(mat.classes[n]))

    def lib_dist(pyt):
        try:
            return g.get_distance_to_terminal(pyt)
        except Exception as e:  # noqa: BLE001
            return f"raised-{type(e).__name__}"

    def reasons(ft, pyt):
        ref = info.te_min_depth(ft, md)
        lib = lib_dist(pyt)
        if lib == ref:
            return set()
        if isinstance(lib, str):
            return {"field-distance-" + lib}
        k = ft[0]
        if k in BASES:
            return {k}
        if k == "ref":
            return {"child-symbol"}
        if k == "list":
            return {"possibly-empty-list"}
        if k == "ann":
            if ft[1][0] == "list":
                return {"possibly-empty-list"}
            return reasons(ft[1], typing.get_args(pyt)[0]) or {"annotated"}
        if k in ("tuple", "union"):
            subs = set()
            for x, px in zip(ft[1], typing.get_args(pyt)):
                subs |= reasons(x, px)
            return subs or {k + "-fold"}
        return {k}

    causes = set()
    for fn, ft in info.fields[n]:
        causes |= reasons(ft, args[fn])
    return sorted(causes) or ["node-level"]


def _strip_tuples(t):
    k = t[0]
    if k == "tuple":
        return ["tuple", []]
    if k == "list":
        return ["list", _strip_tuples(t[1])]
    if k == "union":
        return ["union", [_strip_tuples(x) for x in t[1]]]
    if k == "ann":
        return ["ann", _strip_tuples(t[1]), t[2]]
    return t


def _recursive_ignoring_tuples(info: SpecInfo):
    import copy

    spec = copy.deepcopy(info.spec)
    for c in spec["concretes"]:
        c["fields"] = [[fn, _strip_tuples(ft)] for fn, ft in c["fields"]]
    return SpecInfo(spec).recursive()


class Generated(Facet):
    name = "analysis_generated"
    flags = Flags(dependent=False, user_mh=False, max_abstract=4, max_concrete=7, unreachable=True, concrete_start=True)

    def budget(self, tier):
        return (120, 6) if tier == "quick" else (2000, 16)

    # how the judged Grammar object was obtained: the analysis must be the same for all of them
    VIAS = ("fresh", "fresh", "preprocess-again", "deepcopy", "pickle", "usable-first", "update_weights-by-zero")

    def strategy(self, tier):
        from hypothesis import strategies as st

        newt = st.sampled_from([["int"], ["str"], ["ann", ["int"], ["IntRange", 0, 3]], ["list", ["bool"]], "abstract", "abstract", "list-of-abstract", "last-abstract"])
        return st.builds(
            lambda s, v, ci, fi, nt: {"spec": s, "via": v, "redeclare": [ci, fi, nt]},
            specs(self.flags), st.sampled_from(self.VIAS), st.integers(0, 20), st.integers(0, 5), newt,
        )

    def run(self, case, rec):
        spec = case["spec"]
        mat = materialise(spec)
        try:
            rd = case.get("redeclare")
            with_fields = [c for c in spec["concretes"] if c["fields"] and not any("Dependent" in repr(ft) for _, ft in c["fields"])]
            if rd and rd[0] % 3 == 0 and with_fields:
                # the documented way to specialise a production: Prod.__init__.__annotations__[f] = T, then
                # extract again. A grammar was extracted (and analysed) from the same classes BEFORE the
                # field was re-declared; the analysis judged is that of the grammar extracted AFTER it
                from vk.spec import redeclare

                try:
                    mat.grammar().usable_grammar()
                except Exception:  # noqa: BLE001
                    pass
                c = with_fields[rd[0] % len(with_fields)]
                fn, old_t = c["fields"][rd[1] % len(c["fields"])]
                nt = rd[2]
                a0, a9 = spec["abstracts"][0]["name"], spec["abstracts"][-1]["name"]
                nt = {"abstract": ["ref", a0], "last-abstract": ["ref", a9], "list-of-abstract": ["list", ["ref", a0]]}.get(nt, nt) if isinstance(nt, str) else nt
                if spec.get("expansion") and nt[0] != "ref":
                    # (expansion mode is judged on class-field-only grammars: the docs define no depth
                    # measure for list / base fields there)
                    nt = ["ref", a0]
                if nt != old_t:
                    spec = redeclare(mat, c["name"], fn, nt)
                    rec.label("field-redeclared-after-a-first-extraction")
            self._run(spec, mat, rec, via=case.get("via", "fresh"))
        finally:
            mat.cleanup()

    def _run(self, spec, mat, rec, second=True, via="fresh"):
        if second and hasattr(mat, "considered") and len(spec["abstracts"]) >= 2:
            # the same classes used for another grammar first (another start symbol): the analysis of
            # the grammar judged below must not depend on what was extracted from the classes before
            try:
                from geneticengine.grammar.grammar import extract_grammar

                other = mat.classes[spec["abstracts"][-1]["name"]]
                extract_grammar(mat.considered(), other, spec.get("expansion", False)).usable_grammar()
            except Exception:  # noqa: BLE001
                pass
        info = SpecInfo(spec, mat.classes)
        try:
            g = mat.grammar()
        except Exception as e:  # noqa: BLE001
            from vk.world import exc_bucket

            rec.fail(f"C05/extract/raised/{exc_bucket(e)}", f"extract_grammar raised {e!r} on {spec_str(spec)}")
            return
        rec.label("via:" + via)
        try:
            if via == "preprocess-again":
                g.preprocess()
            elif via == "deepcopy":
                import copy

                g = copy.deepcopy(g)
            elif via == "pickle":
                import pickle

                try:
                    blob = pickle.dumps(g)
                except Exception:  # noqa: BLE001 - not every generated class is picklable
                    blob = None
                    rec.label("via:pickle-not-possible")
                if blob is not None:
                    g = pickle.loads(blob)
            elif via == "usable-first":
                g.usable_grammar()
                g.usable_grammar()
            elif via == "update_weights-by-zero":
                g.update_weights(0.0, {x: 0.0 for x in g.get_weights()})
        except Exception as e:  # noqa: BLE001
            from vk.world import exc_bucket

            rec.fail(f"C05/{via}/raised/{exc_bucket(e)}", f"{via} on a freshly extracted grammar raised {e!r}; {spec_str(spec)}")
            return
        classes = mat.classes
        names = mat.names
        recursive_ref = info.recursive()
        reach_ref = info.reachable()
        if len(info.abstract_names) >= 2 or recursive_ref or (info.registered() - reach_ref):
            rec.nontrivial(spec)
        rec.sample(spec_str(spec))
        forms = set()
        for c in spec["concretes"]:
            for _, t in c["fields"]:
                forms |= te_forms(t)
        for f in forms:
            rec.label("form:" + f)
        rec.label("expansion" if info.expansion else "tree-mode")

        # (1) productions
        for a in info.abstract_names:
            if a not in info.registered():
                continue
            lib = [names.get(x, repr(x)) for x in g.alternatives.get(classes[a], [])]
            ref = info.direct_productions(a)
            if len(lib) != len(set(lib)):
                rec.fail("C05/alternatives/duplicates", f"alternatives[{a}] = {lib} contains duplicates; {spec_str(spec)}")
            if set(lib) != set(ref):
                rec.fail(
                    "C05/alternatives/" + ("missing" if set(ref) - set(lib) else "extra"),
                    f"alternatives[{a}] = {sorted(lib)} but the direct subtypes among the supplied classes are {sorted(ref)}; {spec_str(spec)}",
                )
        # (2) minimum depths
        cul = _culprit(info, g, classes)
        if cul is not None:
            _, n, lib, ref = cul
            causes = _field_causes(info, g, mat, n)
            mode = "expansion" if info.expansion else "tree"
            rec.fail(
                f"C05/min-depth/{mode}/{'+'.join(causes)}",
                f"distanceToTerminal[{n}] = {lib} but the shallowest program derivable from {n} has depth {ref} (fields measured differently: {causes}); {spec_str(spec)}",
            )
        # (3) recursion
        lib_rec = {names[x] for x in g.recursive_prods if x in names}
        ref_rec = {n for n in recursive_ref if n in info.registered()}
        if lib_rec != ref_rec:
            miss = sorted(ref_rec - lib_rec)
            extra = sorted(lib_rec - ref_rec)
            # does the library's answer equal the reference computed while ignoring class
            # references inside tuple[...] fields?
            no_tuple = _recursive_ignoring_tuples(info)
            if miss and lib_rec == {n for n in no_tuple if n in info.registered()}:
                b = "C05/recursive/missing/references-inside-tuple-fields-ignored"
            else:
                b = "C05/recursive/" + ("missing" if miss else "extra")
            rec.fail(
                b,
                f"recursive symbols reported {sorted(lib_rec)}, reference {sorted(ref_rec)} (missing {miss}, extra {extra}); {spec_str(spec)}",
            )
        # (4) usable grammar
        try:
            ug = g.usable_grammar()
        except BaseException as e:  # noqa: BLE001
            from vk.world import exc_bucket

            if isinstance(e, (KeyboardInterrupt, SystemExit)):
                raise
            rec.fail(f"C05/usable/raised/{exc_bucket(e)}", f"usable_grammar() raised {e!r}; {spec_str(spec)}")
            return
        lib_reach = {names[x] for x in ug.considered_subtypes if x in names}
        if lib_reach != reach_ref:
            rec.fail(
                "C05/usable/reachable-set-" + ("missing" if reach_ref - lib_reach else "extra"),
                f"usable_grammar keeps {sorted(lib_reach)}, reachable from {info.start} are {sorted(reach_ref)}; {spec_str(spec)}",
            )
        else:
            for n in sorted(reach_ref):
                a, b = g.distanceToTerminal.get(classes[n]), ug.distanceToTerminal.get(classes[n])
                if a != b:
                    rec.fail("C05/usable/distance-changed", f"distanceToTerminal[{n}] is {a} in the grammar and {b} in its usable sub-grammar; {spec_str(spec)}")
                    break
            for a in info.abstract_names:
                if a in reach_ref:
                    x = [names.get(t) for t in g.alternatives.get(classes[a], []) if names.get(t) in reach_ref]
                    y = [names.get(t) for t in ug.alternatives.get(classes[a], [])]
                    if sorted(x, key=str) != sorted(y, key=str):
                        rec.fail("C05/usable/alternatives-changed", f"alternatives[{a}] {x} vs usable {y}; {spec_str(spec)}")
                        break


class GeneratedExpansion(Generated):
    name = "analysis_generated_expansion_mode"
    flags = Flags(class_fields_only=True, expansion=True, lists=False, bare_lists=False, tuples=False, unions=False, refined=False, max_abstract=4, max_concrete=7)

    def budget(self, tier):
        return (80, 3) if tier == "quick" else (600, 8)


class ReferenceCrossCheck(Facet):
    """The reference fixpoint itself is cross-checked against brute force: on finite-choice
    specs min(depth(p) for p in language(sym, d)) must equal min_depths()[sym]. A
    disagreement is a harness error, not a finding."""

    name = "reference_vs_bruteforce"
    flags = Flags(finite_choice=True, max_abstract=3, max_concrete=5, max_fields=2, max_list_size=2, dependent=False)

    def budget(self, tier):
        return (60, 3) if tier == "quick" else (400, 8)

    def strategy(self, tier):
        return specs(self.flags).map(lambda s: {"spec": s})

    def run(self, case, rec):
        spec = case["spec"]
        info = SpecInfo(spec)
        md = info.min_depths()
        lang = Language(info, cap=4000)
        for n in info.abstract_names + info.concrete_names:
            if n not in info.registered() or md[n] == INF or md[n] > 4:
                continue
            try:
                progs = lang.of_symbol(n, int(md[n]))
                below = lang.of_symbol(n, int(md[n]) - 1)
            except TooLarge:
                rec.discard()
                continue
            if not progs or below or min(canon_depth(c) for c in progs) != md[n]:
                raise AssertionError(f"reference fixpoint disagrees with brute force for {n}: md={md[n]} progs={len(progs)} below={len(below)}; {spec_str(spec)}")
            rec.nontrivial((spec, n))
        rec.sample(spec_str(spec))


# ---- shipped grammars -------------------------------------------------------------------
def import_spec(classes: list[type], start: type):
    """real classes -> spec, using only __mro__, dataclasses/annotations, typing introspection."""
    from abc import ABC

    names: dict[type, str] = {}
    order: list[type] = []

    def add(c):
        if c in names or c in (object, ABC, typing.Generic, typing.Protocol):
            return
        base = c.__name__
        nm = base
        i = 1
        while nm in names.values():
            i += 1
            nm = f"{base}_{i}"
        names[c] = nm
        order.append(c)

    def te(t):
        if t is int:
            return ["int"]
        if t is float:
            return ["float"]
        if t is str:
            return ["str"]
        if t is bool:
            return ["bool"]
        org = typing.get_origin(t)
        if org is typing.Annotated:
            inner = typing.get_args(t)[0]
            mh = t.__metadata__[0]
            r = ["UserMH", "identity"]
            if type(mh).__name__ in ("ListSizeBetween", "ListSizeBetweenWithoutListOperations"):
                r = ["ListSizeBetween", mh.min, mh.max]
            return ["ann", te(inner), r]
        if org is list:
            return ["list", te(typing.get_args(t)[0])]
        if org is tuple:
            return ["tuple", [te(x) for x in typing.get_args(t)]]
        if org is typing.Union:
            return ["union", [te(x) for x in typing.get_args(t)]]
        if isinstance(t, type):
            add(t)
            return ["ref", names[t]]
        raise ValueError(f"unsupported annotation {t!r}")

    def is_abs(c):
        return c.__mro__[1] in (ABC, typing.Protocol) or c.__dict__.get("__gengy__", {}).get("abstract", False)

    todo = [start] + list(classes)
    for c in todo:
        add(c)
    abstracts, concretes = [], []
    i = 0
    fields_of = {}
    while i < len(order):
        c = order[i]
        i += 1
        par = c.__mro__[1]
        if par not in (object, ABC, typing.Generic, typing.Protocol, int, bool, float, str):
            add(par)
        if not is_abs(c):
            import sys

            hints = typing.get_type_hints(c.__init__, globalns=sys.modules[c.__module__].__dict__, include_extras=True)
            fields_of[c] = [[k, te(v)] for k, v in hints.items() if k != "return"]
    for c in order:
        par = c.__mro__[1]
        pn = names.get(par)
        if is_abs(c):
            abstracts.append({"name": names[c], "parent": pn, "style": "ABC" if c.__mro__[1] is ABC else "decorator"})
        else:
            concretes.append({"name": names[c], "parent": pn, "weight": None, "fields": fields_of[c]})
    spec = {
        "abstracts": abstracts,
        "concretes": concretes,
        "start": names[start],
        "expansion": False,
        "considered": [names[c] for c in classes if c in names],
    }
    return spec, {v: k for k, v in names.items()}


def shipped_grammars():
    """(label, classes, start) for the grammars shipped with the repository."""
    out = []

    def mod(name):
        return importlib.import_module(name)

    def concrete_classes(m, abstract_ok=True):
        cs = []
        for v in vars(m).values():
            if isinstance(v, type) and v.__module__ == m.__name__ and (dataclasses.is_dataclass(v) or abstract_ok):
                cs.append(v)
        return cs

    try:
        sgp = mod("geml.grammars.sgp")
        out.append(("geml.sgp", concrete_classes(sgp), sgp.Number))
    except Exception:  # noqa: BLE001
        pass
    try:
        bm = mod("geml.grammars.basic_math")
        out.append(("geml.sgp+basic_math", concrete_classes(mod("geml.grammars.sgp")) + concrete_classes(bm), mod("geml.grammars.sgp").Number))
    except Exception:  # noqa: BLE001
        pass
    for name, start in [
        ("geml.grammars.letter", "String"),
        ("geml.grammars.regex", "RE"),
        ("geml.grammars.ruleset_classification", "RuleSet"),
        ("geml.grammars.symbolic_regression", "Expression"),
        ("geml.grammars.literals", None),
    ]:
        try:
            m = mod(name)
            cs = concrete_classes(m)
            s = getattr(m, start) if start and hasattr(m, start) else None
            if s is None:
                continue
            out.append((name, cs, s))
        except Exception:  # noqa: BLE001
            continue
    try:
        nums = mod("geml.grammars.coding.numbers")
        cls = mod("geml.grammars.coding.classes")
        conds = mod("geml.grammars.coding.conditions")
        lo = mod("geml.grammars.coding.logical_ops")
        cf = mod("geml.grammars.coding.control_flow")
        ls = mod("geml.grammars.coding.lists")
        cs = concrete_classes(nums) + concrete_classes(conds) + concrete_classes(lo) + concrete_classes(cf) + concrete_classes(cls) + concrete_classes(ls)
        for st_name in ("Statement", "Number", "Condition"):
            if hasattr(cls, st_name):
                out.append((f"geml.coding/{st_name}", cs, getattr(cls, st_name)))
    except Exception:  # noqa: BLE001
        pass
    # grammars of the test modules
    import sys

    for tm, cnames, start in [
        ("tests.representations.representations_test", ["IntRangeM", "ListRangeM", "FloatRangeM", "Branch", "Concrete", "ListWrapper"], "Root"),
        ("tests.core.usable_grammar_test", None, None),
    ]:
        try:
            if "/repo" not in sys.path:
                sys.path.append("/repo")
            m = mod(tm)
            if cnames:
                out.append((tm, [getattr(m, c) for c in cnames], getattr(m, start)))
        except Exception:  # noqa: BLE001
            continue
    return out


class Shipped(Generated):
    name = "analysis_shipped_grammars"
    enumerative = True

    def budget(self, tier):
        return (0, 1)

    def cases(self, tier, shard, nshards):
        for label, classes, start in shipped_grammars():
            yield {"label": label}

    def run(self, case, rec):
        from geneticengine.grammar.grammar import extract_grammar

        todo = [x for x in shipped_grammars() if x[0] == case["label"]]
        for label, classes, start in todo:
            try:
                spec, by_name = import_spec(classes, start)
            except ValueError as e:
                rec.label("skipped:" + str(e)[:40])
                rec.discard()
                continue

            class _Mat:
                pass

            mat = _Mat()
            mat.classes = by_name
            mat.names = {v: k for k, v in by_name.items()}
            mat.grammar = lambda: extract_grammar(classes, start)
            rec.label("shipped:" + label)
            self._run(spec, mat, rec)


FACETS = [Generated(), GeneratedExpansion(), ReferenceCrossCheck(), Shipped()]
