"""C14 — searches terminate and stop at the first budget check after the budget is met."""
from __future__ import annotations

import hashlib

from hypothesis import strategies as st

from vk.core import Facet
from vk.refmodel import canon, canon_str
from vk.spec import Flags, spec_str, specs
from vk.steps import build_step, step_str
from vk.world import World

LEVEL = "exploration"
RULE = (
    "Hypothesis draws a grammar, an algorithm (RS, 1+1, HC with neighbourhood 1-6, GP with population 2-12 and one of the "
    "documented step shapes with generated weights/probabilities), a seed and a budget tree over EvaluationBudget(n in 1..80), "
    "TargetFitness(t) and AnyOf; the fitness landscape is table-driven (hash of the program, values are integers) and returns "
    "exactly the target at a generated invocation index. Every budget node is wrapped in a spy that logs (evaluations, best "
    "fitness, verdict). Oracle: the search returns; at every check each node's verdict equals the reference predicate "
    "(evaluations >= n; best == target; or); every check before the last is false and the last is true; no fitness invocation "
    "happens after the last check; tracker.get_number_evaluations() == number of fitness invocations; for a plain evaluation "
    "budget n <= total < n + k (k = 1 RS/1+1, neighbourhood HC, population GP). A run that exceeds 50n+1000 checks is "
    "inconclusive; two consecutive checks with identical (evaluations, RNG state) prove a livelock and are a violation. "
    "Non-trivial = >= 3 budget checks and a last generation overshooting n; distinct by case hash."
)
ASSUMPTIONS = [
    "landscape values are integers, so 'within tolerance of the target' means equal to the target (no tolerance encoded)",
    "GP step shapes are the documented ones (default step, SimpleGP.build_step, selection+variation, novelty) with positive weights and probabilities > 0",
    "liveness is bounded: the cap yields 'inconclusive', only exact state repetition is called non-termination",
]


class StopSearch(Exception):
    pass


def ref_budget(b, evals, best):
    k = b[0]
    if k == "evals":
        return evals >= b[1]
    if k == "target":
        return best is not None and best == b[1]
    if k == "anyof":
        return ref_budget(b[1], evals, best) or ref_budget(b[2], evals, best)
    raise ValueError(b)


def producing_slots(step, size):
    """Slots that the documented slicing rule (ParallelStep docstring: round(w * size / total),
    clipped, the last slice takes the rest) hands to a step that can create new individuals.
    A composition that hands them none (e.g. elitism taking both slots of a population of 2)
    legitimately never advances an evaluation budget."""
    k = step[0]
    if k in ("novelty", "mutation", "crossover"):
        return size
    if k == "seq":
        return size if any(producing_slots(x, size) for x in step[1]) else 0
    if k in ("par", "xpar"):
        ws = list(step[2])
        total = sum(ws)
        idx, acc = [0], 0
        for w_ in ws:
            acc += int(round(w_ * size / total, 0))
            idx.append(min(acc, size))
        idx[-1] = size
        return sum(producing_slots(x, b - a) for x, a, b in zip(step[1], idx, idx[1:]) if b - a > 0)
    return 0


def budget_strategy():
    ev = st.builds(lambda n: ["evals", n], st.integers(1, 80))
    tg = st.builds(lambda t: ["target", t], st.integers(0, 4))
    leaf = st.one_of(ev, ev, tg)
    any1 = st.builds(lambda a, b: ["anyof", a, b], leaf, ev)
    any2 = st.builds(lambda a, b: ["anyof", a, b], any1, leaf)
    return st.one_of(ev, ev, any1, any1, any2).filter(has_evals)


def has_evals(b):
    return b[0] == "evals" or (b[0] == "anyof" and (has_evals(b[1]) or has_evals(b[2])))


@st.composite
def gp_steps(draw, popsize):
    shape = draw(st.sampled_from(["default", "simplegp", "select-vary", "vary-select", "vary-rank", "vary-rank", "novelty"]))
    k = draw(st.integers(1, 5))
    pc = draw(st.sampled_from([0.01, 0.5, 0.9, 1.0]))
    pm = draw(st.sampled_from([0.01, 0.5, 0.9, 1.0]))
    if shape == "default":
        ws = [draw(st.integers(1, 10)), draw(st.integers(1, 10)), draw(st.integers(1, 90))]
        return ["par", [["elitism"], ["novelty"], ["seq", [["tournament", k, False], ["crossover", pc], ["mutation", pm]]]], ws]
    if shape == "simplegp":
        e = draw(st.integers(0, popsize // 2))
        n = draw(st.integers(0, (popsize - e) // 2))
        return ["par", [["elitism"], ["novelty"], ["seq", [["tournament", k, False], ["xpar", [["mutation", pm], ["crossover", pc]], [1, 1]]]]], [e, n, popsize - e - n]]
    if shape == "vary-select":
        # selection applied to freshly produced (not yet evaluated) individuals
        producer = draw(st.sampled_from([["mutation", 1.0], ["novelty"], ["crossover", 1.0]]))
        return ["seq", [producer, ["tournament", k, draw(st.booleans())]]]
    if shape == "select-vary":
        return ["seq", [["tournament", k, draw(st.booleans())], ["mutation", 1.0]]]
    if shape == "vary-rank":
        # freshly produced individuals ranked by an elitism step that passes all of them on
        return ["seq", [draw(st.sampled_from([["mutation", 1.0], ["novelty"], ["crossover", 1.0]])), ["elitism"]]]
    return ["novelty"]


@st.composite
def cases(draw):
    fl = Flags(dependent=False, user_mh=False, max_concrete=5, max_abstract=2, tuples=False)
    alg = draw(st.sampled_from(["rs", "1p1", "hc", "gp", "gp"]))
    pop = draw(st.integers(2, 12)) if alg == "gp" else draw(st.integers(1, 6))
    return {
        "spec": draw(specs(fl)),
        "rep": draw(st.sampled_from(["tree", "tree", "ge", "dsge"])),
        "decider": "maxdepth",
        "depth_extra": 2,
        "seed": draw(st.integers(0, 2**31)),
        "gene_length": 32,
        "ops": [],
        "alg": alg,
        "popsize": pop,
        "step": draw(gp_steps(pop)) if alg == "gp" else None,
        "budget": draw(budget_strategy()),
        "minimize": draw(st.booleans()),
        "mod": draw(st.sampled_from([3, 5, 7])),
        "target_at": draw(st.one_of(st.none(), st.integers(0, 60))),
        # who builds the tracker: the algorithm itself, the user with an explicit evaluator, or the
        # user relying on the tracker's default evaluator (then an earlier search of the same kind
        # has already run in this process)
        "tracker": draw(st.sampled_from(["algorithm", "explicit-evaluator", "default-evaluator", "default-evaluator"])),
        # GP only: the initial individuals were scored before under ANOTHER problem (warm start from
        # an earlier search); that problem rates every program with the target value
        "prescored": draw(st.sampled_from([False, False, True])),
        "budget_reused": draw(st.sampled_from([False, False, True])),
    }


class Budgets(Facet):
    name = "budget_checks"

    def budget(self, tier):
        return (120, 6) if tier == "quick" else (800, 16)

    def strategy(self, tier):
        return cases()

    def run(self, case, rec):
        from geneticengine.evaluation.budget import AnyOf, EvaluationBudget, SearchBudget, TargetFitness
        from geneticengine.evaluation.sequential import SequentialEvaluator
        from geneticengine.evaluation.tracker import SingleObjectiveProgressTracker

        try:
            w = World(case)
        except Exception:  # noqa: BLE001
            rec.discard()
            return
        try:
            if not w.productive():
                rec.discard()
                return
            try:
                w.build()
            except Exception:  # noqa: BLE001
                rec.discard()
                return
            info = w.info
            invoked = []
            targets = [b for b in _leaves(case["budget"]) if b[0] == "target"]
            tval = targets[0][1] if targets else None

            def ff(p):
                i = len(invoked)
                h = hashlib.sha256(canon_str(canon(p, info)).encode()).digest()
                v = float(h[0] % case["mod"]) + 10.0  # never a target value by accident
                if tval is not None and case["target_at"] is not None and i == case["target_at"]:
                    v = float(tval)
                invoked.append(v)
                return v

            log = []  # (node path, evals, best, verdict, invocations)
            state = {"checks": 0, "last_sig": None}
            n_main = max([b[1] for b in _leaves(case["budget"]) if b[0] == "evals"])
            cap = 50 * n_main + 1000

            class Spy(SearchBudget):
                def __init__(self, inner, path, root=False):
                    self.inner, self.path, self.root = inner, path, root

                def is_done(self, tracker):
                    if self.root:
                        state["checks"] += 1
                        if state["checks"] > cap:
                            raise StopSearch("cap")
                        sig = (tracker.get_number_evaluations(), hash(w.random.getstate()), len(invoked))
                        if sig == state["last_sig"]:
                            raise StopSearch("cycle")
                        state["last_sig"] = sig
                        if tracker.get_number_evaluations() != len(invoked):
                            # the budget is judged on a counter that no longer equals the real number of
                            # evaluations: the search may overshoot or never stop - no need to wait for it
                            raise StopSearch("counter")
                    v = self.inner.is_done(tracker)
                    b = tracker.get_best_individual()
                    bv = None if b is None else b.get_fitness(tracker.problem).fitness_components[0]
                    bi = None if not invoked else (min(invoked) if case["minimize"] else max(invoked))
                    log.append((self.path, tracker.get_number_evaluations(), bv, bool(v), len(invoked), self.root, bi))
                    return v

            def build(b, path, root=False):
                if b[0] == "evals":
                    inner = EvaluationBudget(b[1])
                elif b[0] == "target":
                    inner = TargetFitness(b[1])
                else:
                    inner = AnyOf(build(b[1], path + "a"), build(b[2], path + "b"))
                return Spy(inner, path, root)

            by_path = {}

            def index(b, path):
                by_path[path] = b
                if b[0] == "anyof":
                    index(b[1], path + "a")
                    index(b[2], path + "b")

            index(case["budget"], "r")
            budget = build(case["budget"], "r", root=True)
            step = build_step(case["step"]) if case["step"] else None
            rec.label("alg:" + case["alg"], "budget:" + case["budget"][0])
            desc = {"spec": spec_str(case["spec"]), "alg": case["alg"], "popsize": case["popsize"], "budget": case["budget"], "step": step_str(case["step"]) if case["step"] else None, "target_at": case["target_at"]}
            tmode = case.get("tracker", "explicit-evaluator")
            mk_tracker = {
                "algorithm": None,
                "explicit-evaluator": lambda problem: SingleObjectiveProgressTracker(problem, SequentialEvaluator()),
                "default-evaluator": lambda problem: SingleObjectiveProgressTracker(problem),
            }[tmode]
            rec.label("tracker:" + tmode)
            if tmode == "default-evaluator":
                # an earlier, unrelated search in the same process, configured the same way
                try:
                    w.search("rs", 7, 1, fitness=lambda p: 0.0, tracker=mk_tracker)
                except Exception:  # noqa: BLE001
                    pass
                del invoked[:]
            init = None
            if case.get("prescored") and case["alg"] == "gp":
                from geneticengine.algorithms.gp.structure import PopulationInitializer
                from geneticengine.problems import SingleObjectiveProblem
                from geneticengine.solutions.individual import Individual

                decoy = SingleObjectiveProblem(lambda p: float(tval if tval is not None else 0), minimize=case["minimize"])

                class PreScored(PopulationInitializer):
                    def initialize(self, problem, representation, random, target_size):
                        inds = [Individual(representation.create_genotype(random), representation) for _ in range(target_size)]
                        SequentialEvaluator().evaluate(decoy, inds)
                        yield from inds

                init = PreScored()
                rec.label("prescored-initial-population")
            if case.get("budget_reused"):
                # the very same budget object (built once, e.g. for a loop over seeds) has already
                # served a complete earlier search with its own algorithm and tracker
                try:
                    w.search("rs", 0, 1, fitness=ff, minimize=case["minimize"], budget_obj=budget)
                except Exception:  # noqa: BLE001
                    pass
                del invoked[:], log[:]
                state.update(checks=0, last_sig=None)
                rec.label("budget-object-reused")
            try:
                _, best = w.search(
                    case["alg"], 0, case["popsize"], fitness=ff, minimize=case["minimize"],
                    tracker=mk_tracker,
                    budget_obj=budget, step=step, initializer=init,
                )
            except StopSearch as s:
                if str(s) == "counter":
                    rec.fail(
                        f"C14/counter/{case['alg']}",
                        f"at a budget check tracker.get_number_evaluations() = {w.last_algorithm.tracker.get_number_evaluations() if hasattr(w, 'last_algorithm') else '?'} but the fitness function had been invoked {len(invoked)} times; {desc}",
                    )
                elif str(s) == "cycle" and case["step"] and producing_slots(case["step"], max(2, case["popsize"])) == 0:
                    rec.label("excluded:no-slot-for-a-step-that-creates-individuals")
                    rec.stats.excluded["no-producing-slice"] += 1
                elif str(s) == "cycle":
                    rec.fail(
                        f"C14/livelock/{case['alg']}",
                        f"two consecutive budget checks with identical evaluation count and RNG state ({state['last_sig'][0]} evaluations): the search can never finish; {desc}",
                    )
                else:
                    rec.inconclusive()
                    rec.label("inconclusive:cap")
                return
            except Exception as e:  # noqa: BLE001
                rec.discard()
                rec.label("discarded:" + type(e).__name__)
                return
            rec.sample(desc, limit=2)
            tracker = w.last_algorithm.tracker
            # node verdicts
            # Does every evaluated individual reach the tracker with this configuration? (A selection
            # step that follows a variation step drops its losers unseen: the open C12 finding.)
            all_reach_tracker = case["alg"] != "gp" or not case["step"] or (case["step"][0] != "seq" or case["step"][1][-1][0] in ("mutation", "crossover", "novelty", "elitism"))
            for path, evals, bv, verdict, ninv, root, bi in log:
                if all_reach_tracker and verdict != ref_budget(by_path[path], evals, bi):
                    rec.fail(
                        f"C14/verdict-ignores-an-evaluated-individual/{by_path[path][0]}",
                        f"budget node {by_path[path]} answered {verdict} at {evals} evaluations although the best fitness evaluated so far is {bi} (the tracker reports {bv}); {desc}",
                    )
                    return
                exp = ref_budget(by_path[path], evals, bv)
                if verdict != exp:
                    rec.fail(
                        f"C14/verdict/{by_path[path][0]}",
                        f"budget node {by_path[path]} answered {verdict} at {evals} evaluations with best fitness {bv}, reference predicate says {exp}; {desc}",
                    )
                    return
            roots = [x for x in log if x[5]]
            if not roots:
                rec.fail("C14/no-budget-check", f"search returned without consulting the budget; {desc}")
                return
            if any(x[3] for x in roots[:-1]) or not roots[-1][3]:
                rec.fail(f"C14/stop-point/{case['alg']}", f"root verdicts {[x[3] for x in roots][-6:]}: the search must stop at the first true check; {desc}")
                return
            if roots[-1][4] != len(invoked):
                rec.fail(f"C14/evaluated-after-stop/{case['alg']}", f"{len(invoked) - roots[-1][4]} fitness invocations after the final budget check; {desc}")
                return
            if tracker.get_number_evaluations() != len(invoked):
                rec.fail(
                    f"C14/counter/{case['alg']}",
                    f"tracker.get_number_evaluations() = {tracker.get_number_evaluations()} but the fitness function was invoked {len(invoked)} times; {desc}",
                )
                return
            if case["budget"][0] == "evals":
                n = case["budget"][1]
                k = {"rs": 1, "1p1": 1, "hc": max(1, case["popsize"]), "gp": max(2, case["popsize"])}[case["alg"]]
                total = len(invoked)
                if not (n <= total < n + k):
                    rec.fail(
                        f"C14/count-window/{case['alg']}",
                        f"EvaluationBudget({n}) with {k} evaluations between checks stopped after {total} evaluations (expected {n} <= total < {n + k}); {desc}",
                    )
                    return
                if len(roots) >= 3 and total > n:
                    rec.nontrivial(desc)
            elif len(roots) >= 3:
                rec.nontrivial(desc)
            rec.label(f"stopped-by:{'target' if roots[-1][2] == tval and tval is not None else 'evals'}")
        finally:
            w.cleanup()


def _leaves(b):
    if b[0] == "anyof":
        return _leaves(b[1]) + _leaves(b[2])
    return [b]


class TargetTranslation(Facet):
    """Metamorphic relation for the target-fitness budget that does not encode the tolerance:
    'within tolerance of the target' must not depend on where the target lies. The same sequence
    of distances to the target, replayed at targets 0, 1, 1000 and 10**6, must stop the search at
    the same evaluation."""

    name = "target_fitness_translation_invariance"

    def budget(self, tier):
        return (150, 2) if tier == "quick" else (1000, 8)

    def strategy(self, tier):
        dist = st.sampled_from([0.0, 0.0, 1e-7, 1e-6, 1e-5, 3e-5, 2.5e-4, 5e-4, 2e-3, 6e-3, 0.015625, 0.5, 3.0, 64.0])
        return st.builds(
            lambda ds, alg, below, cap: {"distances": ds, "alg": alg, "below": below, "cap": cap},
            st.lists(dist, min_size=1, max_size=12),
            st.sampled_from(["rs", "1p1"]),
            st.booleans(),
            st.integers(12, 20),
        )

    def run(self, case, rec):
        from geneticengine.algorithms.one_plus_one import OnePlusOne
        from geneticengine.algorithms.random_search import RandomSearch
        from geneticengine.evaluation.budget import AnyOf, EvaluationBudget, TargetFitness
        from geneticengine.problems import SingleObjectiveProblem
        from geneticengine.random.sources import NativeRandomSource
        from vk.props.c15 import make_world

        ds = case["distances"]
        stops = {}
        w = make_world(11)
        try:
            # ... nor on how the target NUMBER is written: 0, False and 0.0 are the same target
            for shift in (0.0, 1.0, 1024.0, 1048576.0, 0, 1, 1024, False, True):
                calls = []

                def ff(p, shift=shift, calls=calls):
                    i = len(calls)
                    d = ds[i] if i < len(ds) else 64.0
                    v = shift - d if case["below"] else shift + d
                    calls.append(v)
                    return v

                # approach the target from below when maximising, from above when minimising, so the best
                # so far is always the value closest to the target
                problem = SingleObjectiveProblem(ff, minimize=not case["below"])
                budget = AnyOf(TargetFitness(shift), EvaluationBudget(case["cap"]))
                cls = RandomSearch if case["alg"] == "rs" else OnePlusOne
                try:
                    cls(problem=problem, budget=budget, representation=w.rep, random=NativeRandomSource(3)).search()
                except Exception as e:  # noqa: BLE001
                    rec.discard()
                    rec.label("discarded:" + type(e).__name__)
                    return
                stops[repr(shift)] = len(calls)
            rec.sample({"distances": ds, "stops": {str(k): v for k, v in stops.items()}}, limit=2)
            if len(set(stops.values())) > 1:
                rec.fail(
                    "C14/target-fitness/stop-point-depends-on-the-target's-magnitude",
                    f"distances to the target {ds} ({'from below' if case['below'] else 'from above'}, {case['alg']}): the search stopped after {stops} evaluations for targets 0/1/1024/2**20 written as float, int or bool - being within tolerance must not depend on the magnitude of the target nor on the type of the number it is written as",
                )
            if min(ds) < 1e-3 and len(ds) >= 3:
                rec.nontrivial(case)
        finally:
            w.cleanup()


class TargetReachedByOffspring(Budgets):
    """GP runs (minimising) whose budget is AnyOf(TargetFitness(t), EvaluationBudget(n)) and whose
    fitness function returns exactly t for one individual evaluated AFTER the initial generation:
    the search must stop at the first check after that evaluation, whatever step produced it."""

    name = "target_reached_by_offspring"

    def budget(self, tier):
        return (50, 4) if tier == "quick" else (400, 8)

    def strategy(self, tier):
        def fix(case, n, t, off):
            pop = max(2, case["popsize"])
            case = dict(case)
            case.update(alg="gp", popsize=pop, minimize=True, budget=["anyof", ["target", t], ["evals", n]], target_at=min(n - 1, pop + off))
            return case

        return st.builds(fix, cases().filter(lambda c: c["alg"] == "gp" and c["step"] is not None), st.integers(30, 90), st.integers(0, 4), st.integers(0, 40))


class SimpleGPTarget(Facet):
    """The geml entry point: SimpleGP(target_fitness=t, max_evaluations=n, max_time=large) with a fitness
    function that returns exactly t for the i-th evaluated program (minimising; everything else is
    worse): the search stops at the first check after that evaluation, for every target value -
    0 and 0.0 included - and runs to the evaluation budget when there is no target."""

    name = "simplegp_target_fitness"

    def budget(self, tier):
        return (16, 4) if tier == "quick" else (100, 8)

    def strategy(self, tier):
        return st.builds(
            lambda t, at, n, pop, seed: {"target": t, "target_at": at, "evals": n, "pop": pop, "seed": seed},
            st.sampled_from([0, 0.0, 1, 2.5, -3, None]),
            st.integers(0, 40),
            st.integers(60, 150),
            st.integers(4, 12),
            st.integers(0, 1000),
        )

    def run(self, case, rec):
        from geml.simplegp import SimpleGP
        from vk.props.c15 import SPEC
        from vk.spec import materialise

        mat = materialise(SPEC)
        try:
            g = mat.grammar()
            calls = []
            t = case["target"]

            def ff(p):
                i = len(calls)
                v = float(t) if (t is not None and i == case["target_at"]) else 50.0 + (i % 7)
                calls.append(v)
                return v

            rec.label("target:" + repr(t))
            rec.sample(case, limit=2)
            try:
                gp = SimpleGP(fitness_function=ff, grammar=g, minimize=True, max_depth=4, max_evaluations=case["evals"], max_time=100000, target_fitness=t,
                              seed=case["seed"], population_size=case["pop"], elitism=1, novelty=1)
                gp.search()
            except Exception as e:  # noqa: BLE001
                rec.discard()
                rec.label("discarded:" + type(e).__name__)
                return
            n, pop, total = case["evals"], case["pop"], len(calls)
            if t is not None and case["target_at"] < n:
                rec.nontrivial((repr(t), case["target_at"], n, pop))
                # the target is evaluated as call #target_at: at most one more generation may follow
                if total > case["target_at"] + 1 + pop:
                    rec.fail(
                        "C14/simplegp/target-evaluated-but-search-continues",
                        f"SimpleGP(target_fitness={t!r}, max_evaluations={n}, population_size={pop}): the fitness function returned the target at evaluation #{case['target_at']}, yet {total} evaluations were made",
                    )
                    return
            else:
                if not (n <= total < n + pop + 1):
                    rec.fail(
                        "C14/simplegp/count-window",
                        f"SimpleGP(target_fitness={t!r}, max_evaluations={n}, population_size={pop}) made {total} evaluations",
                    )
        finally:
            mat.cleanup()


class ParallelEvaluatorBudget(Facet):
    """Hill climbing (whose neighbourhood is scored as one batch) and GP under a ParallelEvaluator with an
    evaluation budget n: the number of fitness-function invocations (counted in a file, the calls
    happen in worker processes) must lie in [n, n + batch)."""

    name = "evaluation_budget_with_parallel_evaluator"
    fuzz_runs = 0  # every case spawns processes: too slow for a coverage-guided campaign

    def budget(self, tier):
        return (5, 4) if tier == "quick" else (30, 8)

    def strategy(self, tier):
        return st.builds(
            lambda alg, n, k, seed: {"alg": alg, "evals": n, "k": k, "seed": seed},
            st.sampled_from(["hc", "hc", "gp"]),
            st.integers(3, 14),
            st.integers(2, 4),
            st.integers(0, 2**31),
        )

    def run(self, case, rec):
        import os
        import tempfile

        from geneticengine.evaluation.parallel import ParallelEvaluator
        from geneticengine.evaluation.tracker import SingleObjectiveProgressTracker
        from vk.props.c13 import _reset_pathos
        from vk.props.c15 import make_world

        _reset_pathos()
        w = make_world(case["seed"])
        fd, path = tempfile.mkstemp(prefix="vk_c14p_", suffix=".log")
        os.close(fd)
        try:
            def ff(p):
                with open(path, "a") as f:
                    f.write("x\n")
                return float(len(repr(p)) % 7)

            rec.label("alg:" + case["alg"])
            rec.sample(case, limit=2)
            try:
                w.search(case["alg"], case["evals"], case["k"], fitness=ff, tracker=lambda problem: SingleObjectiveProgressTracker(problem, ParallelEvaluator()))
            except Exception as e:  # noqa: BLE001
                rec.discard()
                rec.label("discarded:" + type(e).__name__)
                return
            with open(path) as f:
                total = sum(1 for _ in f)
            n = case["evals"]
            batch = max(2, case["k"]) if case["alg"] == "gp" else max(1, case["k"])
            rec.nontrivial((case["alg"], n, case["k"], case["seed"]))
            if not (n <= total < n + batch + 1):
                rec.fail(
                    f"C14/parallel-evaluator/count-window/{case['alg']}",
                    f"{case['alg']} with EvaluationBudget({n}), batch size {batch} and a ParallelEvaluator: the fitness function was invoked {total} times (expected {n} <= total < {n + batch + 1})",
                )
        finally:
            w.cleanup()
            _reset_pathos()
            try:
                os.unlink(path)
            except OSError:
                pass


FACETS = [Budgets(), TargetTranslation(), TargetReachedByOffspring(), SimpleGPTarget(), ParallelEvaluatorBudget()]
