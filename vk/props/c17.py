"""C17 — selection operators are sound (tournament and lexicase)."""
from __future__ import annotations

import itertools
import statistics

from hypothesis import strategies as st

from vk.core import Facet
from vk.sources import RecordingSource, ScriptedSource, Unbounded, enumerate_collect
from vk.values import NUMBER_FORMS, single_objective_values

LEVEL = "exploration"
RULE = (
    "Hypothesis draws populations of 1-8 table-driven individuals with fitness vectors of 1-4 cases (small integers, ties), a "
    "direction per case, tournament sizes 1..len+2 with/without replacement, target sizes 1..2*len (tournament) / 1..len "
    "(lexicase) and epsilon on/off. Tournament: from the recorded choice() calls of a RecordingSource the participants of every "
    "tournament are known; the winner must be a member of the given population and at least as fit as each participant. "
    "Lexicase: winners are members, none is returned more often than it occurs, and the j-th winner must belong to the union, "
    "over all case orders, of the survivors of an independent reference lexicase filter (MAD band for epsilon) applied to the "
    "candidates still available. For populations <= 4, <= 3 cases and targets <= 3 ALL outcomes of the random draws are "
    "enumerated with a scripted source, and every member of the first winner's union must be returned on some path. "
    "Non-trivial = >= 3 candidates with pairwise distinct vectors and target >= 2; distinct by case hash."
)
ASSUMPTIONS = [
    "ties never fail ('at least as fit')",
    "epsilon band = median absolute deviation of the case values among the current candidates (equation cited by the docstring); NaN never generated",
    "population is passed as a list",
]


class TableRep:
    def genotype_to_phenotype(self, g):
        return g


def mk_inds(vectors):
    from geneticengine.solutions.individual import Individual

    rep = TableRep()
    from vk.values import num

    # ("inf" / "-inf" in the JSON case: an infinite component, the "invalid on this case" / "perfect" idiom)
    return [Individual((i, tuple(num(x) for x in v)), rep) for i, v in enumerate(vectors)]


# ---- tournament ---------------------------------------------------------------------------
def judge_tournament(case, rec, source, exhaustive_tag):
    from geneticengine.algorithms.gp.operators.selection import TournamentSelection
    from geneticengine.evaluation.sequential import SequentialEvaluator
    from geneticengine.problems import SingleObjectiveProblem

    from vk.values import as_form

    minimize = case["minimize"]
    nf = case.get("number_form")
    if case.get("int_aggregate"):
        # a multi-objective problem whose custom aggregate packs its value into a large Python int
        # (priority * 10**18 + score): exact, but beyond the 2**53 a double can tell apart
        from geneticengine.problems import MultiObjectiveProblem

        sign = -1 if minimize else 1
        problem = MultiObjectiveProblem([minimize], lambda p: [p[1][0]], aggregate_fitness=lambda xs: 3 * 10**18 + sign * int(xs[0]))
    else:
        problem = SingleObjectiveProblem(lambda p: as_form(p[1][0], nf), minimize=minimize)
    inds = mk_inds([[v] for v in case["values"]])
    if case.get("decoy"):
        # the same individuals were evaluated earlier under another problem (opposite direction)
        # that is still alive: selection must rank by the problem it is given
        decoy = SingleObjectiveProblem(lambda p: p[1][0], minimize=not minimize)
        SequentialEvaluator().evaluate(decoy, inds)
        judge_tournament.keepalive = decoy
    step = TournamentSelection(case["tsize"], with_replacement=case["replacement"])
    if case.get("reused"):
        # the step object was used before on another population (a step is built once per search)
        warm = mk_inds([[v + 1] for v in reversed(case["values"])])
        list(step.apply(problem, SequentialEvaluator(), TableRep(), RecordingSource(0), list(warm), 1, 0))
    out = list(step.apply(problem, SequentialEvaluator(), TableRep(), source, list(inds), case["target"], 1))
    return inds, out


def check_tournament(case, rec, inds, winners, choice_log):
    minimize = case["minimize"]
    ids = {id(x) for x in inds}
    desc = f"fitness {case['values']}, tournament_size {case['tsize']}, with_replacement={case['replacement']}, target {case['target']}, minimize={minimize}"
    if len(winners) != case["target"]:
        rec.discard()  # size is C15's business
    for w in winners:
        if id(w) not in ids:
            rec.fail("C17/tournament/winner-not-a-member", f"winner {getattr(w, 'genotype', w)!r} is not in the given population ({desc})")
            return
    t = case["tsize"]
    if len(choice_log) < t * len(winners):
        rec.fail("C17/tournament/fewer-draws-than-participants", f"{len(choice_log)} participant draws for {len(winners)} tournaments of size {t} ({desc})")
        return
    for j, w in enumerate(winners):
        parts = choice_log[j * t : (j + 1) * t]
        if not any(p is w for p in parts):
            rec.fail("C17/tournament/winner-not-a-participant", f"tournament {j}: winner {w.genotype} is not among the drawn participants {[p.genotype for p in parts]} ({desc})")
            return
        wv = w.genotype[1][0]
        for p in parts:
            pv = p.genotype[1][0]
            if (pv < wv) if minimize else (pv > wv):
                rec.fail(
                    f"C17/tournament/winner-worse-than-a-participant/{'minimize' if minimize else 'maximize'}",
                    f"tournament {j}: winner fitness {wv} but participant with fitness {pv} was drawn ({desc})",
                )
                return


class TournamentRecorded(Facet):
    name = "tournament_recorded_draws"

    def budget(self, tier):
        return (200, 2) if tier == "quick" else (1000, 16)

    def strategy(self, tier):
        return st.one_of(st.integers(1, 8), st.integers(1, 8 if tier == "quick" else 60)).flatmap(
            lambda n: st.builds(
                lambda values, ts, repl, tgt, minimize, seed, decoy: {"values": values if seed % 4 != 3 else [v if isinstance(v, int) else int(v) for v in values], "tsize": ts, "replacement": repl, "target": tgt, "minimize": minimize, "seed": seed, "decoy": decoy and seed % 4 != 3, "reused": seed % 2 == 1, "number_form": NUMBER_FORMS[(seed // 2) % len(NUMBER_FORMS)],
                                                                    "int_aggregate": seed % 4 == 3},
                st.lists(single_objective_values(), min_size=n, max_size=n),
                st.integers(1, n + 2),
                st.booleans(),
                st.integers(1, 2 * n),
                st.booleans(),
                st.integers(0, 2**31),
                st.booleans(),
            ),
        )

    def run(self, case, rec):
        src = RecordingSource(case["seed"])
        rec.label("replacement" if case["replacement"] else "no-replacement", f"tsize{'>len' if case['tsize'] > len(case['values']) else '<=len'}")
        rec.sample(case, limit=2)
        try:
            inds, out = judge_tournament(case, rec, src, "recorded")
        except Exception as e:  # noqa: BLE001
            rec.discard()
            rec.label("discarded:" + type(e).__name__)
            return
        choices = [e[3] for e in src.log if e[0] == "choice"]
        check_tournament(case, rec, inds, out, choices)
        if len(set(case["values"])) >= 3 and case["target"] >= 2:
            rec.nontrivial(case)


class TournamentAllDraws(Facet):
    name = "tournament_all_draws"

    def budget(self, tier):
        return (60, 2) if tier == "quick" else (300, 8)

    def strategy(self, tier):
        return st.integers(1, 4).flatmap(
            lambda n: st.builds(
                lambda values, ts, repl, tgt, minimize, decoy: {"values": values, "tsize": ts, "replacement": repl, "target": tgt, "minimize": minimize, "decoy": decoy},
                st.lists(st.one_of(st.integers(0, 2), st.sampled_from([1e10, 1e10 + 1, 3.0, 3.0000000001])), min_size=n, max_size=n),
                st.integers(1, 3),
                st.booleans(),
                st.integers(1, 3),
                st.booleans(),
                st.booleans(),
            ),
        )

    def run(self, case, rec):
        rec.sample(case, limit=2)
        holder = {}

        class Src(ScriptedSource):
            def choice(self, choices):
                v = super().choice(choices)
                self.picked = getattr(self, "picked", [])
                self.picked.append(v)
                return v

        def run(src):
            inds, out = judge_tournament(case, rec, src, "all")
            return inds, out, list(getattr(src, "picked", []))

        # enumerate with our subclass
        from vk.sources import next_prefix

        prefix = []
        n = 0
        complete = True
        while prefix is not None:
            if n >= 4000:
                complete = False
                break
            src = Src(prefix, max_width=16)
            try:
                inds, out, picked = run(src)
            except Unbounded:
                rec.discard()
                return
            except Exception:  # noqa: BLE001
                rec.discard()
                prefix = next_prefix(src.trace)
                n += 1
                continue
            check_tournament(case, rec, inds, out, picked)
            n += 1
            prefix = next_prefix(src.trace)
        rec.stats.labels["paths"] += n
        if rec.stats.exhaustive is None:
            rec.stats.exhaustive = True
        rec.stats.exhaustive = rec.stats.exhaustive and complete
        if len(set(case["values"])) >= 3 and case["target"] >= 2:
            rec.nontrivial(case)


# ---- lexicase -----------------------------------------------------------------------------
def mad(vals):
    """Median absolute deviation as numpy computes it: a NaN (inf - inf) anywhere makes the result NaN."""
    import math

    m = statistics.median(vals)
    devs = [abs(v - m) for v in vals]
    if math.isnan(m) or any(math.isnan(d) for d in devs):
        return math.nan
    return statistics.median(devs)


def survivors(cands, order, minimize, epsilon):
    """cands: list of (key, vector)"""
    cur = list(cands)
    for c in order:
        if len(cur) <= 1:
            break
        vals = [v[c] for _, v in cur]
        best = min(vals) if minimize[c] else max(vals)
        band = mad(vals) if epsilon else 0
        if minimize[c]:
            cur = [(k, v) for k, v in cur if v[c] <= best + band + 1e-12]
        else:
            cur = [(k, v) for k, v in cur if v[c] >= best - band - 1e-12]
    return cur


def survivor_union(cands, n_cases, minimize, epsilon):
    keys = set()
    for order in itertools.permutations(range(n_cases)):
        keys |= {k for k, _ in survivors(cands, order, minimize, epsilon)}
    return keys


def run_lexicase(case, source):
    from geneticengine.algorithms.gp.operators.selection import LexicaseSelection
    from geneticengine.evaluation.sequential import SequentialEvaluator
    from geneticengine.problems import MultiObjectiveProblem

    problem = MultiObjectiveProblem(list(case["minimize"]), lambda p: list(p[1]))
    inds = mk_inds(case["vectors"])
    step = LexicaseSelection(epsilon=case["epsilon"])
    if case.get("seed", 0) % 2 == 1:
        # the same step object used before on another population
        from vk.values import num as _num

        warm = mk_inds([[_num(x) + 3 for x in v] for v in reversed(case["vectors"])])
        list(step.apply(problem, SequentialEvaluator(), TableRep(), RecordingSource(0), list(warm), 1, 0))
    if case.get("seed", 0) % 4 == 1:
        # twins: further, distinct Individual objects whose genotypes equal those of the first ones
        from geneticengine.solutions.individual import Individual

        inds = inds + [Individual(x.genotype, x.representation) for x in inds[:2]]
    pop = list(inds)
    if case.get("seed", 0) % 3 == 0:
        # the same step object was applied before to the very same list object, under another
        # problem (other scores for the same individuals) that is still alive
        other = MultiObjectiveProblem([not m for m in case["minimize"]], lambda p: [7 - x for x in reversed(p[1])])  # (p[1] is decoded: numbers)
        list(step.apply(other, SequentialEvaluator(), TableRep(), RecordingSource(1), pop, 1, 0))
        run_lexicase.keepalive = other
    out = list(step.apply(problem, SequentialEvaluator(), TableRep(), source, pop, case["target"], 1))
    return inds, out


def check_lexicase(case, rec, inds, winners):
    n_cases = len(case["minimize"])
    desc = f"vectors {case['vectors']}, minimize {case['minimize']}, epsilon={case['epsilon']}, target {case['target']}"
    ids = {id(x): x for x in inds}
    remaining = list(inds)  # by identity: the population may hold distinct individuals with equal genotypes
    avail = [(x.genotype[0], x.genotype[1]) for x in remaining]
    for j, w in enumerate(winners):
        if id(w) not in ids:
            rec.fail("C17/lexicase/winner-not-a-member", f"winner #{j} is not in the population ({desc})")
            return None
        key = w.genotype[0]
        if not any(w is x for x in remaining):
            rec.fail("C17/lexicase/individual-returned-more-often-than-it-occurs", f"individual #{key} (the very object) returned again as winner #{j} ({desc}, population keys {[x.genotype[0] for x in inds]})")
            return None
        union = survivor_union(avail, n_cases, case["minimize"], case["epsilon"])
        if key not in union:
            rec.fail(
                f"C17/lexicase/winner-does-not-survive-any-case-order/{'first-winner' if j == 0 else 'later-winner'}/{'epsilon' if case['epsilon'] else 'plain'}",
                f"winner #{j} is individual #{key} {w.genotype[1]}, but with candidates {avail} the lexicase filter leaves only {sorted(union)} over all case orders ({desc})",
            )
            return None
        remaining = [x for x in remaining if x is not w]
        avail = [(x.genotype[0], x.genotype[1]) for x in remaining]
    return True


def lexicase_cases(max_pop, max_cases, max_target, vals):
    return st.integers(1, max_pop).flatmap(
        lambda n: st.integers(1, max_cases).flatmap(
            lambda k: st.builds(
                lambda vectors, minimize, eps, tgt, seed: {"vectors": vectors, "minimize": minimize, "epsilon": eps, "target": 1 + tgt % (min(n, max_target) + (2 if tgt % 5 == 0 else 0)), "seed": seed},
                st.lists(st.lists(st.one_of(vals, vals, vals, vals, vals, vals, vals, st.sampled_from(["inf", "-inf"])), min_size=k, max_size=k), min_size=n, max_size=n),
                st.lists(st.booleans(), min_size=k, max_size=k),
                st.booleans(),
                st.integers(0, 20),
                st.integers(0, 2**31),
            ),
        ),
    )


class LexicaseRecorded(Facet):
    name = "lexicase_seeded"

    def budget(self, tier):
        return (200, 3) if tier == "quick" else (1000, 16)

    def strategy(self, tier):
        return lexicase_cases(8, 4, 8, st.integers(-2, 3))

    def run(self, case, rec):
        rec.label("epsilon" if case["epsilon"] else "plain", f"target={'1' if case['target'] == 1 else '>=2'}")
        rec.sample(case, limit=2)
        try:
            inds, out = run_lexicase(case, RecordingSource(case["seed"]))
        except Exception as e:  # noqa: BLE001
            rec.discard()
            rec.label("discarded:" + type(e).__name__)
            return
        check_lexicase(case, rec, inds, out)
        if len({tuple(v) for v in case["vectors"]}) >= 3 and case["target"] >= 2:
            rec.nontrivial(case)


class LexicaseAllDraws(Facet):
    name = "lexicase_all_draws"

    def budget(self, tier):
        return (50, 3) if tier == "quick" else (300, 16)

    def strategy(self, tier):
        return lexicase_cases(4, 3, 3, st.integers(0, 2))

    def run(self, case, rec):
        rec.sample(case, limit=2)
        rec.label("epsilon" if case["epsilon"] else "plain")
        # (the completeness clause below is about selections that can succeed: k <= population size)
        case = {**case, "target": min(case["target"], len(case["vectors"]))}

        def run(src):
            return run_lexicase(case, src)

        try:
            paths, complete = enumerate_collect(run, 3000, max_width=16)
        except Unbounded:
            rec.discard()
            return
        first_winners = set()
        for trace, res, exc in paths:
            if exc is not None:
                rec.discard()
                continue
            inds, out = res
            ok = check_lexicase(case, rec, inds, out)
            if out:
                first_winners.add(out[0].genotype[0])
            if ok is None:
                return
        rec.stats.labels["paths"] += len(paths)
        if rec.stats.exhaustive is None:
            rec.stats.exhaustive = True
        rec.stats.exhaustive = rec.stats.exhaustive and complete
        if complete:
            # the population as it was handed to the step (it may hold twins of the first individuals)
            pop0 = next((res[0] for _, res, exc in paths if exc is None and res), [])
            avail = [(x.genotype[0], tuple(x.genotype[1])) for x in pop0]
            union = survivor_union(avail, len(case["minimize"]), case["minimize"], case["epsilon"]) if avail else set()
            missing = union - first_winners
            if any(exc is not None for _, _, exc in paths):
                missing = set()  # (some draws made the step raise: the completeness clause is about selections that succeed)
            if missing:
                rec.fail(
                    "C17/lexicase/filter-vacuous-or-biased/first-winner-never-some-survivor",
                    f"over all {len(paths)} outcomes of the random draws the first winner is never individual(s) {sorted(missing)} although they survive some case order (vectors {case['vectors']}, minimize {case['minimize']}, epsilon={case['epsilon']})",
                )
        if len({tuple(v) for v in case["vectors"]}) >= 3 and case["target"] >= 2:
            rec.nontrivial(case)


FACETS = [TournamentRecorded(), TournamentAllDraws(), LexicaseRecorded(), LexicaseAllDraws()]
