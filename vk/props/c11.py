"""C11 — per-node size and depth metadata matches the actual program structure."""
from __future__ import annotations

from vk.core import Facet
from vk.refmodel import canon, canon_str
from vk.spec import Flags, spec_str
from vk.world import World, world_cases

LEVEL = "exploration"
RULE = (
    "Hypothesis draws a grammar with annotated and bare lists, nested lists, tuples and unions, a representation that builds "
    "programs through the tree generator (tree, GE, SGE, dSGE), a decider, a depth limit and a history of creations, mutations "
    "and crossovers. For EVERY node object of every produced program (also nodes nested in lists and nodes reused from a "
    "parent) an independent traversal computes: node count, distance to the deepest terminal (field-less node 0, otherwise "
    "1 + max over child nodes reached through lists/tuples, builtin-only node 1), weighted size (sum of distances over the "
    "subtree) and the type index (for every grammar class the identity multiset of its instances in the subtree); the "
    "attributes gengy_nodes / gengy_distance_to_term / gengy_weighted_nodes / gengy_types_this_way must agree. Non-trivial = a "
    "program with a node nested under a list, or produced by an operator from a parent; distinct by (canonical program, op)."
)
ASSUMPTIONS = [
    "general grammars are judged in tree-depth mode; expansion_depthing=True is judged on grammars whose fields are all class-typed, where the measure is unambiguous: one node and one level per production, plus one per step from a field's declared abstract type down the class hierarchy to the production used (a field-less production counts one level)",
    "conventions pinned by the repository's tests: a field-less node has distance 0, a node with only builtin fields has distance 1",
    "only class instances are judged (lists carry labels too but the statement speaks about nodes)",
    "stack-representation programs are outside the anchored code (they are built without the tree generator)",
]


def ref_meta(n, info, memo):
    """(nodes, dist, weighted, {classname: [ids]}, has_list_with_nodes, has_fieldless) of node n."""
    if id(n) in memo:
        return memo[id(n)]
    name = type(n).__name__
    fs = info.fields[name]
    kids = []
    under_list = [False]

    has_tuple = [False]

    def collect(v, in_list):
        if isinstance(v, (list, tuple)):
            if isinstance(v, list):
                under_list[0] = True
            else:
                has_tuple[0] = True
            for x in v:
                collect(x, in_list or isinstance(v, list))
        elif type(v).__name__ in info.fields and type(v) not in (int, float, str, bool):
            kids.append(v)
            if in_list:
                under_list[0] = True

    for fn, _ in fs:
        collect(getattr(n, fn), False)
    cnt, wt = 1, 0
    dist_kids = []
    types = {name: [id(n)]}
    has_list = under_list[0]
    has_tup = has_tuple[0]
    has_fieldless = not fs
    for k in kids:
        c, d, w, t, hl, hf, ht = ref_meta(k, info, memo)
        has_tup = has_tup or ht
        cnt += c
        wt += w
        dist_kids.append(d)
        has_list = has_list or hl
        has_fieldless = has_fieldless or hf
        for tn, ids in t.items():
            types.setdefault(tn, []).extend(ids)
    dist = 0 if not fs else 1 + max(dist_kids or [0])
    wt += dist
    memo[id(n)] = (cnt, dist, wt, types, has_list, has_fieldless, has_tup)
    return memo[id(n)]


def ref_meta_expansion(n, info, memo):
    """The same traversal under expansion_depthing=True, for grammars whose fields are class-typed or
    (nested) lists of classes: every step from a field's declared abstract type down the class
    hierarchy to the production that was actually used is one more expansion (counted as a node and
    as a level); every list - as a field or nested in another list - is one node and one level; a
    field-less production counts as one level. (Elements of a list are taken as they are: the
    library counts no hops for them.)"""
    if id(n) in memo:
        return memo[id(n)]
    name = type(n).__name__
    fs = info.fields[name]
    cnt, wt = 1, 0
    levels = []
    types = {name: [id(n)]}
    has_fieldless = not fs
    has_list = False

    def merge(t_):
        for tn, ids in t_.items():
            types.setdefault(tn, []).extend(ids)

    def of_list(li):
        """(nodes, levels, weighted, any production inside) of a list value."""
        c, d, w = 0, 0, 0
        for e in li:
            if isinstance(e, list):
                c2, d2, w2 = of_list(e)
                c += 1 + c2
                d = max(d, d2 + 1)
                w += w2
            else:
                c_, d_, w_, t_, _, hf, _ = ref_meta_expansion(e, info, memo)
                c += c_
                d = max(d, d_ + 1)
                w += w_
                merge(t_)
        return c, d, w

    for fn, ft in fs:
        k = getattr(n, fn)
        if isinstance(k, list):
            has_list = True
            c2, d2, w2 = of_list(k)
            cnt += 1 + c2
            wt += w2
            levels.append(d2 + 1)
            continue
        kname = type(k).__name__
        hops, c = 0, kname
        if ft[0] == "ref" and info.is_abstract(ft[1]):
            while c != ft[1]:
                c = info.parent[c]
                hops += 1
        c_, d_, w_, t_, hl, hf, _ = ref_meta_expansion(k, info, memo)
        cnt += hops + c_
        wt += w_
        levels.append(d_ + hops + 1)
        has_fieldless = has_fieldless or hf
        has_list = has_list or hl
        merge(t_)
    dist = max([1] + levels)
    wt += dist
    memo[id(n)] = (cnt, dist, wt, types, has_list, has_fieldless, False)
    return memo[id(n)]


class Metadata(Facet):
    deciders = ("maxdepth", "full", "pigrow", "progressive")

    name = "node_metadata"
    ref = staticmethod(ref_meta)
    flags = Flags(dependent=False, user_mh=True, max_concrete=6, tuples=True, unions=True)
    reps = ("tree", "ge", "sge", "dsge")

    def budget(self, tier):
        return (120, 8) if tier == "quick" else (300, 16)

    def strategy(self, tier):
        return world_cases(self.flags, reps=self.reps, deciders=self.deciders, max_ops=8, depth_extras=(1, 2, 3))

    def run(self, case, rec):
        try:
            w = World(case)
        except Exception:  # noqa: BLE001
            rec.discard()
            return
        try:
            self._run(case, rec, w)
        finally:
            w.cleanup()

    def _run(self, case, rec, w):
        rep = case["rep"]
        if not w.productive():
            rec.discard()
            return
        try:
            w.build()
        except Exception:  # noqa: BLE001
            rec.discard()
            return
        info = w.info
        rec.label("rep:" + rep)
        from vk.refmodel import nodes as all_nodes

        def judge(p, how):
            memo = {}
            ns = all_nodes(p, info)
            pc = canon(p, info)
            any_list = False
            for n in ns:
                cnt, dist, wt, types, has_list, has_fieldless, has_tup = self.ref(n, info, memo)
                any_list = any_list or has_list
                cause = "subtree-with-list" if has_list else ("subtree-with-tuple" if has_tup else ("subtree-with-fieldless-leaf" if has_fieldless else "general"))
                d = getattr(n, "__dict__", {})
                where = f"node {canon_str(canon(n, info))} of program {canon_str(pc)} ({how}, {rep}); grammar {spec_str(case['spec'])}"
                for attr, refv in (("gengy_nodes", cnt), ("gengy_distance_to_term", dist), ("gengy_weighted_nodes", wt)):
                    if attr not in d:
                        rec.fail(f"C11/{attr}/missing-attribute", f"{attr} not set on {where}")
                        continue
                    if d[attr] != refv:
                        rec.fail(f"C11/{cause}/{attr}", f"{attr} = {d[attr]} but the traversal gives {refv} for {where}")
                ttw = d.get("gengy_types_this_way")
                if ttw is None:
                    rec.fail("C11/gengy_types_this_way/missing-attribute", f"gengy_types_this_way not set on {where}")
                else:
                    for tn, ids in types.items():
                        cls = info.classes[tn]
                        lib_ids = sorted(id(x) for x in ttw.get(cls, []))
                        if lib_ids != sorted(ids):
                            rec.fail(
                                f"C11/{cause}/gengy_types_this_way",
                                f"type index lists {len(lib_ids)} instance(s) of {tn}, the traversal finds {len(ids)} for {where}",
                            )
                            break
                    for t, v in ttw.items():
                        tn = info.name_of.get(t)
                        if tn in info.fields and tn not in types and v:
                            rec.fail(f"C11/gengy_types_this_way/stale-or-foreign-entry", f"type index lists {len(v)} instance(s) of {tn} that are not in the subtree of {where}")
                            break
            if any_list or how in ("mutate", "crossover"):
                rec.nontrivial((pc, how))
            rec.label(f"judged:{how}")

        def obs(ev, w):
            if ev.exc is not None:
                rec.discard()
                return
            for i in ev.outputs:
                try:
                    p = w.phenotype(i)
                except Exception:  # noqa: BLE001
                    rec.discard()
                    continue
                judge(p, ev.kind)
            if ev.kind == "map":
                judge(ev.extra["phenotype"], "map")
            if rep == "tree" and ev.kind in ("mutate", "crossover"):
                # the parents are programs the library created too: an operator must not leave them
                # with metadata that no longer matches their structure
                for i in ev.inputs:
                    judge(w.pool[i], "parent-after-" + ev.kind)

        rec.sample({"spec": spec_str(case["spec"]), "rep": rep, "decider": case["decider"], "ops": case["ops"]})
        w.run(obs)


class MetadataConcreteStart(Metadata):
    """Tree representation with a recursive production as start symbol (crossover then reuses inner
    subtrees of the other parent instead of synthesising fresh material)."""

    name = "node_metadata_tree_concrete_start"
    reps = ("tree",)
    flags = Flags(dependent=False, user_mh=False, max_concrete=6, min_extra_concrete=2, tuples=True, unions=True, concrete_start="always", bare_lists=False, max_list_size=2)

    def budget(self, tier):
        return (120, 4) if tier == "quick" else (400, 16)

    def strategy(self, tier):
        from hypothesis import strategies as st

        base = world_cases(self.flags, reps=self.reps, deciders=("maxdepth", "pigrow"), max_ops=1, depth_extras=(1, 2, 3))
        idx = st.integers(0, 40)
        xs = st.lists(st.one_of(st.builds(lambda i, j: ["crossover", i, j], idx, idx), st.builds(lambda i: ["mutate", i], idx)), min_size=3, max_size=12)
        return st.builds(lambda c, x: {**c, "ops": [["create"], ["create"], ["create"]] + x}, base, xs)


class MetadataExpansion(Metadata):
    """expansion_depthing=True on grammars whose fields are all class-typed, with abstract hierarchies
    up to four levels deep: every abstract-to-production step below a field counts."""

    name = "node_metadata_expansion_mode"
    ref = staticmethod(ref_meta_expansion)
    flags = Flags(class_fields_only=True, expansion=True, lists=True, bare_lists=True, nested_generics=True, tuples=False, unions=False, refined=False, dependent=False, user_mh=False,
                  max_abstract=5, max_concrete=7, nested_abstract=True, self_refs=False, plain_classes=True, max_list_size=2)
    reps = ("tree", "ge", "dsge")
    # (no depth-unbounded decider here: on class-only grammars with bare lists of recursive productions
    # its trees grow to millions of nodes - the open C01 finding - and a case runs for minutes)
    deciders = ("maxdepth", "full", "pigrow")

    def budget(self, tier):
        return (60, 4) if tier == "quick" else (300, 8)


FACETS = [Metadata(), MetadataConcreteStart(), MetadataExpansion()]
