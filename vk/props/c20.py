"""C20 — the CSV search log is faithful and is a valid prefix at every interruption point."""
from __future__ import annotations

import json
import os
import subprocess
import sys
import tempfile

from hypothesis import strategies as st

from vk.c20_common import build, expected_row, header_for, mask_time, num, parse, read_raw
from vk.core import VERIF_DIR, Facet

LEVEL = "fault_enumeration"
RULE = (
    "Hypothesis draws a recorder configuration (1-4 objectives, default fields / custom fields dict, 0-3 extra fields that are "
    "distinct pure functions of the program, record-all / best-only) and a table-driven evaluation history fed in generated "
    "batches to the single- or multi-objective tracker. Observation points: a spy recorder placed before and one placed after "
    "the CSVSearchRecorder re-read the file through an independent OS-level handle at EVERY registration; the bytes must parse "
    "to header + complete rows, end with a line terminator, equal the reference rows (k-th fitness column = k-th component of "
    "that individual, every extra column computed from that individual's program; 'Execution Time' masked) and extend the "
    "previous observation. Kill points: child processes run the same history and SIGKILL themselves inside register() before or "
    "after the CSV recorder at EVERY registration index (thorough) / three indices (quick); the file left behind must equal the "
    "first j (resp. j+1 when the row was due) rows of the uninterrupted log. A third facet drives SimpleGP(csv_output=, "
    "csv_extra_fields=). Non-trivial = >= 2 objectives with pairwise different components and >= 2 extra fields; distinct by case hash."
)
ASSUMPTIONS = [
    "kill points are at registration granularity (the statement's 'between two registrations'); the OS page cache survives SIGKILL, power loss is out of scope",
    "in best-only mode the reference uses the is_best flag the tracker hands to the recorders (its correctness is C12's subject)",
    "the wall-clock column 'Execution Time' is masked",
]


@st.composite
def csv_cases(draw, max_len=8):
    k = draw(st.integers(1, 4))
    n = draw(st.integers(1, max_len))
    # small ints, and (for one objective) the "invalid program" idiom: an infinite fitness
    val = st.integers(-3, 9) if k > 1 else st.one_of(st.integers(-3, 9), st.integers(-3, 9), st.sampled_from(["inf", "-inf"]))
    values = [[draw(val) for _ in range(k)] for _ in range(n)]
    return {
        "objectives": k,
        "force_multi": draw(st.booleans()) if k == 1 else True,
        "minimize": [draw(st.booleans()) for _ in range(k)],
        "fields": draw(st.sampled_from(["default", "default", "custom"])),
        "n_extra": draw(st.integers(0, 3)),
        "only_best": draw(st.booleans()),
        "values": values,
        "batches": draw(st.lists(st.integers(1, 4), min_size=max_len, max_size=max_len)),
        "prescored": draw(st.sampled_from([0, 0, 1, 2, 3])),
        # an extra field may carry the name of a configured column ("Phenotype", "Fitness0", "Idx", "Agg")
        "payload": draw(st.sampled_from(["", "", "", ",", ' "q" ', "line\nbreak", "cr\rcr", "crlf\r\n", "\r", ";\t'"])),
        "collide": draw(st.sampled_from([None, None, None, "Phenotype", "Fitness0", "Idx", "Agg"])),
    }


def is_nontrivial(case):
    vs = case["values"]
    return case["objectives"] >= 2 and case["n_extra"] >= 2 and any(len(set(v)) == len(v) for v in vs)


def reference_run(case, path, observe=None):
    """Runs the history uninterrupted; returns (header, expected rows, flags). observe(kind, n_expected_rows)
    is called from spies before/after the CSV recorder at every registration."""
    from geneticengine.evaluation.recorder import SearchRecorder

    flags = []  # (idx, is_best) in registration order
    state = {"rows": 0}

    class Before(SearchRecorder):
        def register(self, tracker, individual, problem, is_best):
            flags.append((individual.genotype[0], bool(is_best)))
            if observe:
                observe("before", state["rows"])

    class After(SearchRecorder):
        def register(self, tracker, individual, problem, is_best):
            if (not case["only_best"]) or is_best:
                state["rows"] += 1
            if observe:
                observe("after", state["rows"])

    problem, tracker, inds, rec = build(case, path, [Before()], [After()])
    pos = 0
    for b in case["batches"]:
        chunk = inds[pos : pos + b]
        if not chunk:
            break
        tracker.evaluate(chunk)
        pos += len(chunk)
    rows = []
    for idx, best in flags:
        if case["only_best"] and not best:
            continue
        ind = inds[idx]
        rows.append(expected_row(case, idx, case["values"][idx], ind.get_fitness(problem).maximizing_aggregate))
    try:
        rec.csv_file.close()
    except Exception:  # noqa: BLE001
        pass
    return header_for(case), rows, flags


class Histories(Facet):
    name = "csv_histories_observed_at_every_registration"

    def budget(self, tier):
        return (120, 4) if tier == "quick" else (600, 16)

    def strategy(self, tier):
        return csv_cases()

    def run(self, case, rec):
        fd, path = tempfile.mkstemp(prefix="vk_c20_", suffix=".csv")
        os.close(fd)
        try:
            observations = []

            def observe(kind, n_rows):
                observations.append((kind, n_rows, read_raw(path)))

            rec.label(f"objectives={case['objectives']}", "fields:" + case["fields"], f"extra={case['n_extra']}", "best-only" if case["only_best"] else "record-all")
            rec.sample(case, limit=2)
            # a differently configured log written earlier in the same process must not influence this one
            k0 = 1 + case["objectives"] % 4
            prelude = {**case, "objectives": k0, "force_multi": True, "minimize": [False] * k0, "n_extra": (case["n_extra"] + 2) % 4,
                       "values": [[1] * k0, [2] * k0], "batches": [1, 1], "only_best": False}
            fd0, p0 = tempfile.mkstemp(prefix="vk_c20p_", suffix=".csv")
            os.close(fd0)
            try:
                reference_run(prelude, p0)
            except Exception:  # noqa: BLE001 - judged when it is the main case
                pass
            finally:
                try:
                    os.unlink(p0)
                except OSError:
                    pass
            try:
                header, rows, flags = reference_run(case, path, observe)
            except Exception as e:  # noqa: BLE001
                rec.fail(f"C20/recorder-raised-{type(e).__name__}", f"recording raised {e!r} for {case}")
                return
            final = read_raw(path)
            observations.append(("final", len(rows), final))
            prev = b""
            for kind, n_rows, raw in observations:
                where = f"{kind} registration (expecting {n_rows} rows)"
                if not raw.startswith(prev):
                    rec.fail("C20/not-a-prefix-of-later-state", f"file content at {where} does not extend the previous observation")
                    return
                prev = raw
                if raw and not raw.endswith((b"\n", b"\r")):
                    rec.fail("C20/incomplete-row-on-disk", f"file at {where} does not end with a line terminator: ...{raw[-40:]!r}")
                    return
                try:
                    parsed = parse(raw)
                except Exception as e:  # noqa: BLE001
                    rec.fail("C20/unparsable", f"file at {where} is not valid CSV: {e!r}")
                    return
                if not parsed or parsed[0] != header:
                    rec.fail(
                        "C20/header/" + ("missing" if not parsed else "wrong-columns"),
                        f"header at {where} is {parsed[0] if parsed else None}, configured columns are {header}",
                    )
                    return
                got = mask_time(case, parsed[1:])
                if len(got) != n_rows:
                    rec.fail(
                        f"C20/row-count/{'best-only' if case['only_best'] else 'record-all'}/{'missing-rows' if len(got) < n_rows else 'extra-rows'}",
                        f"{len(got)} rows on disk at {where}; flags so far {flags[: n_rows + 2]}",
                    )
                    return
                for ri, (g, e) in enumerate(zip(got, rows)):
                    if len(g) != len(header):
                        rec.fail("C20/row-width", f"row {ri} has {len(g)} cells for {len(header)} columns: {g}")
                        return
                    if g != e:
                        col = next(i for i, (a, b) in enumerate(zip(g, e)) if a != b)
                        cname = header[col]
                        kind_col = "fitness-column" if cname.startswith(("Fitness", "Obj")) else ("extra-field" if cname.startswith("Extra") else "other-column")
                        rec.fail(
                            f"C20/cell-mismatch/{kind_col}",
                            f"row {ri} column {cname}: file has {g[col]!r}, expected {e[col]!r} (row {g} vs {e}; {case['objectives']} objectives, values {case['values']})",
                        )
                        return
            if case["only_best"]:
                # "only strict improvements when so configured", judged independently of the flags
                # the tracker hands out: the first registered individual and every one whose
                # (direction-adjusted) aggregate beats all earlier ones must have a row; one that is
                # worse than an earlier one must not (ties: no row for single-objective problems)
                single = case["objectives"] == 1 and not case.get("force_multi")

                def agg(vec):
                    return sum(-num(v) if m else num(v) for v, m in zip(vec, case["minimize"]))

                best = None
                for j, (idx, flag) in enumerate(flags):
                    a = agg(case["values"][idx])
                    must = best is None or a > best
                    may = must or (not single and a == best)
                    if flag and not may:
                        rec.fail(
                            "C20/best-only/row-for-an-individual-that-is-no-improvement",
                            f"best-only log: registration #{j} (individual {idx}, aggregate {a}) got a row although an earlier individual had aggregate {best}; values {case['values']}, minimize {case['minimize']}, batches {case['batches']}, flags {flags}",
                        )
                        return
                    if must and not flag:
                        rec.fail(
                            "C20/best-only/improvement-without-a-row",
                            f"best-only log: registration #{j} (individual {idx}, aggregate {a}) improves on everything before (best {best}) but got no row; values {case['values']}, minimize {case['minimize']}, flags {flags}",
                        )
                        return
                    best = a if best is None else max(best, a)
            if is_nontrivial(case):
                rec.nontrivial(case)
        finally:
            try:
                os.unlink(path)
            except OSError:
                pass


class KillPoints(Facet):
    name = "kill_points"
    fuzz_runs = 0  # every case spawns processes: too slow for a coverage-guided campaign

    def budget(self, tier):
        return (3, 8) if tier == "quick" else (25, 16)

    def strategy(self, tier):
        return st.builds(lambda c, picks, tier=tier: {**c, "picks": picks, "tier": tier}, csv_cases(max_len=6), st.lists(st.integers(0, 5), min_size=3, max_size=3))

    def run(self, case, rec):
        tmpdir = tempfile.mkdtemp(prefix="vk_c20k_")
        try:
            ref_path = os.path.join(tmpdir, "ref.csv")
            try:
                header, rows, flags = reference_run(case, ref_path)
            except Exception as e:  # noqa: BLE001
                rec.fail(f"C20/recorder-raised-{type(e).__name__}", f"recording raised {e!r} for {({k: v for k, v in case.items() if k not in ('picks', 'tier')})}")
                return
            full = parse(read_raw(ref_path))
            nreg = len(flags)
            idxs = range(nreg) if case["tier"] == "thorough" else sorted({p % nreg for p in case["picks"]})
            rec.sample({k: v for k, v in case.items() if k not in ("picks", "tier")}, limit=2)
            for j in idxs:
                for where in ("before", "after"):
                    path = os.path.join(tmpdir, f"k{j}{where}.csv")
                    job = os.path.join(tmpdir, "job.json")
                    with open(job, "w") as f:
                        json.dump({"case": {k: v for k, v in case.items() if k not in ("picks", "tier")}, "csv": path, "kill_at": j, "where": where}, f)
                    r = subprocess.run([sys.executable, "-m", "vk.c20_child", job], capture_output=True, text=True, cwd=VERIF_DIR, timeout=300)
                    if r.returncode != -9:
                        rec.discard()
                        rec.label(f"child-not-killed(rc={r.returncode})")
                        continue
                    rec.label(f"killed-{where}")
                    # rows due at the kill point: registrations 0..j-1 (before) / 0..j (after)
                    upto = j if where == "before" else j + 1
                    due = sum(1 for idx, best in flags[:upto] if (not case["only_best"]) or best)
                    raw = read_raw(path)
                    if raw and not raw.endswith((b"\n", b"\r")):
                        rec.fail("C20/kill/incomplete-row-on-disk", f"killed {where} the CSV recorder at registration {j}: file ends with {raw[-40:]!r}")
                        return
                    got = parse(raw)
                    exp = [header] + rows[:due]
                    if mask_time(case, got[1:]) != exp[1:] or (got[:1] != exp[:1]):
                        rec.fail(
                            f"C20/kill/file-is-not-the-expected-prefix/{'rows-lost' if len(got) < len(exp) else 'other'}",
                            f"killed {where} the CSV recorder at registration {j} of {nreg}: file has {len(got) - 1 if got else -1} rows, the uninterrupted log has {due} rows at that point (header ok: {got[:1] == exp[:1]})",
                        )
                        return
                    rec.nontrivial((case["values"], case["only_best"], case["fields"], case["n_extra"], j, where))
        finally:
            import shutil

            shutil.rmtree(tmpdir, ignore_errors=True)


class SimpleGPCsv(Facet):
    name = "simplegp_csv"

    def budget(self, tier):
        return (10, 4) if tier == "quick" else (60, 16)

    def strategy(self, tier):
        return st.builds(
            lambda n_extra, only_best, seed, evals, pop, multi: {"n_extra": n_extra, "only_best": only_best, "seed": seed, "evals": evals, "pop": pop, "multi": multi},
            st.integers(0, 3),
            st.booleans(),
            st.integers(0, 1000),
            st.integers(5, 40),
            st.integers(4, 10),
            st.booleans(),
        )

    def run(self, case, rec):
        from geml.simplegp import SimpleGP
        from vk.props.c15 import SPEC
        from vk.refmodel import SpecInfo, canon, canon_nodes, canon_str
        from vk.spec import materialise

        mat = materialise(SPEC)
        fd, path = tempfile.mkstemp(prefix="vk_c20s_", suffix=".csv")
        os.close(fd)
        try:
            g = mat.grammar()
            info = SpecInfo(SPEC, mat.classes)
            extras = {}
            for k in range(case["n_extra"]):
                extras[f"X{k}"] = (lambda k: (lambda p: f"x{k}:{canon_nodes(canon(p, info)) * (k + 1)}"))(k)

            # node classes whose text does not identify the program (a pretty-printer that elides
            # sub-terms): the Phenotype column is then the same for different programs, and the rows are
            # judged through the first extra field instead
            lossy = case["seed"] % 2 == 1 and case["n_extra"] >= 1
            if lossy:
                mat.classes["C1"].__str__ = lambda self: "C1(..)"
                rec.label("program-text-not-injective")
            # one objective may also be declared the multi-objective way: minimize=[b], fitness [v]
            list1 = (not case["multi"]) and case["seed"] % 3 == 0

            def ff(p):
                n = canon_nodes(canon(p, info))
                return [float(n % 5), float(n % 3)] if case["multi"] else ([float(n % 5)] if list1 else float(n % 5))

            rec.label(f"extra={case['n_extra']}", "multi" if case["multi"] else ("single-as-one-element-list" if list1 else "single"))
            rec.sample(case, limit=2)
            try:
                gp = SimpleGP(
                    fitness_function=ff, grammar=g, minimize=[False, True] if case["multi"] else ([False] if list1 else False), max_depth=4, max_evaluations=case["evals"], max_time=600,
                    csv_output=path, csv_extra_fields=extras or None, only_record_best_individuals=case["only_best"], seed=case["seed"],
                    population_size=case["pop"], elitism=1, novelty=1,
                )
                gp.search()
            except Exception as e:  # noqa: BLE001
                rec.discard()
                rec.label("discarded:" + type(e).__name__)
                return
            raw = read_raw(path)
            rows = parse(raw)
            k = 2 if case["multi"] else 1
            header = ["Execution Time", "Phenotype"] + [f"Fitness{c}" for c in range(k)] + list(extras)
            if not rows or rows[0] != header:
                rec.fail("C20/simplegp/header", f"header {rows[0] if rows else None}, expected {header}")
                return
            if raw and not raw.endswith((b"\n", b"\r")):
                rec.fail("C20/simplegp/incomplete-row-on-disk", "file does not end with a line terminator")
                return
            # each row: recompute the fitness and extras from the Phenotype column by re-parsing is
            # not possible in general; use the node count encoded by the program's repr instead:
            # Phenotype is str(program) -> count class-name occurrences
            for ri, row in enumerate(rows[1:]):
                if len(row) != len(header):
                    rec.fail("C20/simplegp/row-width", f"row {ri}: {len(row)} cells for {len(header)} columns")
                    return
                n = row[1].count("C0(") + row[1].count("C1(")
                if lossy:
                    try:
                        n = int(row[2 + k].split(":")[1])
                    except Exception:  # noqa: BLE001
                        rec.fail("C20/simplegp/cell-mismatch/extra-field", f"row {ri}: column X0 = {row[2 + k]!r} is not what the callback returns")
                        return
                    if [float(row[2 + c]) for c in range(k)] != ([float(n % 5), float(n % 3)] if case["multi"] else [float(n % 5)]):
                        rec.fail(
                            "C20/simplegp/cell-mismatch/extra-field-and-fitness-from-different-programs",
                            f"row {ri} (program text {row[1]!r}, shared by different programs): the fitness columns {row[2:2 + k]} and the extra field X0 = {row[2 + k]!r} (node count {n}) cannot stem from one and the same program",
                        )
                        return
                exp_f = [float(n % 5), float(n % 3)] if case["multi"] else [float(n % 5)]
                for c in range(k):
                    if float(row[2 + c]) != exp_f[c]:
                        rec.fail("C20/simplegp/cell-mismatch/fitness-column", f"row {ri}: Fitness{c} = {row[2 + c]} but the program {row[1]} has fitness components {exp_f}")
                        return
                for kx in range(case["n_extra"]):
                    want = f"x{kx}:{n * (kx + 1)}"
                    if row[2 + k + kx] != want:
                        rec.fail("C20/simplegp/cell-mismatch/extra-field", f"row {ri}: column X{kx} = {row[2 + k + kx]!r}, computed from that individual's program it is {want!r}")
                        return
            if case["only_best"] and k == 1:
                # "only strict improvements when so configured": with one objective (maximised here) every
                # row must beat all rows before it
                best = None
                for ri, row in enumerate(rows[1:]):
                    v = float(row[2])
                    if best is not None and not v > best:
                        rec.fail(
                            "C20/simplegp/best-only/row-for-an-individual-that-is-no-improvement",
                            f"best-only log of a single-objective run ({'minimize=[False]' if list1 else 'minimize=False'}): row {ri} has fitness {v} after a row with {best}",
                        )
                        return
                    best = v if best is None else max(best, v)
            if case["n_extra"] >= 2 and len(rows) >= 3:
                rec.nontrivial(case)
        finally:
            mat.cleanup()
            try:
                os.unlink(path)
            except OSError:
                pass


FACETS = [Histories(), KillPoints(), SimpleGPCsv()]
