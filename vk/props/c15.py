"""C15 — population size is invariant across generations and step compositions."""
from __future__ import annotations

import hashlib
import itertools

from hypothesis import strategies as st

from vk.core import Facet
from vk.refmodel import canon, canon_str
from vk.spec import materialise
from vk.steps import build_step, step_str, step_strategy
from vk.world import World, exc_bucket

LEVEL = "exploration"
RULE = (
    "Facet A enumerates ALL (population size 2..16, weight vectors over {0..4}^3 with a positive sum, target k = size and "
    "k = size-1) for ParallelStep and ExclusiveParallelStep over fixed sub-steps. Facet B: Hypothesis draws nestings (<= 3) of "
    "the built-in steps (elitism, novelty, tournament, mutation, crossover, identity, sequence, parallel, exclusive parallel) with "
    "non-negative int/float weights, population sizes 2..40, k <= size (crossover only sees >= 2 parents), and the population "
    "passed as list, Population object or one-shot iterator; len(list(step.apply(..., target_size=k))) must be k. Facet C: every "
    "initialiser (Standard, Generic, Full, Grow, PI-grow, ramped, HalfAndHalf, InjectInitialPopulationWrapper with 0..k+3 injected "
    "programs) asked for k yields k. Facet D: GP runs with generated steps, every generation seen by a spy recorder has exactly "
    "population_size individuals. Non-trivial = weights whose rounded shares do not sum to the target, a nested combinator, or a "
    "non-list population; distinct by case hash."
)
ASSUMPTIONS = [
    "EvaluateStep is excluded (not in the statement's list; its docstring says it passes on the complete population)",
    "the input population always has at least k members",
    "a step that raises on such an input is reported as a violation of the size contract (it yields no population at all)",
]

SPEC = {
    "abstracts": [{"name": "A0", "parent": None, "style": "ABC"}],
    "concretes": [
        {"name": "C0", "parent": "A0", "weight": None, "fields": [["f0", ["ann", ["int"], ["IntRange", 0, 9]]]]},
        {"name": "C1", "parent": "A0", "weight": None, "fields": [["f0", ["ref", "A0"]], ["f1", ["ref", "A0"]]]},
    ],
    "start": "A0",
    "expansion": False,
    "considered": ["A0", "C0", "C1"],
}


def deeper_spec(extra):
    """SPEC wrapped in `extra` productions with a single class-typed field: the starting symbol is
    then a production and the grammar's minimum depth is 1 + extra."""
    import copy

    s = copy.deepcopy(SPEC)
    inner = "A0"
    for j in range(extra):
        s["concretes"].append({"name": f"W{j}", "parent": None, "weight": None, "fields": [["f0", ["ref", inner]]]})
        s["considered"].append(f"W{j}")
        inner = f"W{j}"
    s["start"] = inner
    return s


def make_world(seed, rep="tree", extra_depth=0):
    case = {"spec": SPEC if not extra_depth else deeper_spec(extra_depth), "rep": rep, "decider": "maxdepth", "depth_extra": 3, "seed": seed, "gene_length": 32, "ops": []}
    w = World(case)
    w.build()
    return w


def make_population(w, n, problem, evaluator):
    from geneticengine.solutions.individual import Individual

    pop = [Individual(w.rep.create_genotype(w.random), w.rep) for _ in range(n)]
    evaluator.evaluate(problem, pop)
    return pop


def make_problem(w, nan=False):
    """nan=True: the fitness function returns NaN for about a third of the programs (0/0, log of a
    negative number ... - a legal float); population sizes must not depend on it."""
    from geneticengine.problems import SingleObjectiveProblem

    info = w.info

    def ff(p):
        v = hashlib.sha256(canon_str(canon(p, info)).encode()).digest()[0] % 11
        return float("nan") if nan and v < 4 else float(v)

    return SingleObjectiveProblem(ff)


def as_form(pop, form, tracker=None):
    if form == "list":
        return list(pop)
    if form == "iterator":
        return iter(list(pop))
    if form == "generator":
        return (x for x in list(pop))
    if form == "population":
        from geneticengine.algorithms.gp.population import Population

        return Population(iter(list(pop)), tracker, 0)
    raise ValueError(form)


def apply_and_count(step, w, problem, evaluator, pop, k, form, tracker=None):
    out = list(step.apply(problem, evaluator, w.rep, w.random, as_form(pop, form, tracker), k, 1))
    return len(out)


def kinds_in(j):
    k = j[0]
    out = {k}
    if k in ("seq", "par", "xpar"):
        for x in j[1]:
            out |= kinds_in(x)
    return out


def culprit(j):
    """Coarse root-cause key: the set of combinator kinds and input-sensitive leaves involved."""
    ks = kinds_in(j)
    parts = [x for x in ("xpar", "par", "seq") if x in ks]
    return "+".join(parts) if parts else j[0]


class ExhaustiveWeights(Facet):
    name = "parallel_weights_all_small_configs"
    enumerative = True

    def budget(self, tier):
        return (0, 8)

    def cases(self, tier, shard, nshards):
        n = 0
        top = 12 if tier == "quick" else 16
        for kind in ("par", "xpar"):
            for size in range(2, top + 1):
                for ws in itertools.product(range(5), repeat=3):
                    if sum(ws) == 0:
                        continue
                    for dk in (0, 1):
                        n += 1
                        if n % nshards == shard:
                            yield {"kind": kind, "size": size, "weights": list(ws), "k": size - dk}

    def run(self, case, rec):
        from geneticengine.evaluation.sequential import SequentialEvaluator

        w = make_world(7)
        try:
            problem = make_problem(w)
            ev = SequentialEvaluator()
            pop = make_population(w, case["size"], problem, ev)
            subs = [["elitism"], ["novelty"], ["mutation", 1.0]] if case["kind"] == "par" else [["mutation", 1.0], ["identity"], ["tournament", 2, True]]
            j = [case["kind"], subs, case["weights"]]
            k = case["k"]
            if rec.stats.exhaustive is None:
                rec.stats.exhaustive = True
            shares = [round(x * case["size"] / sum(case["weights"])) for x in case["weights"]]
            if sum(shares) != k:
                rec.nontrivial(case)
            rec.sample(case, limit=2)
            try:
                n = apply_and_count(build_step(j), w, problem, ev, pop, k, "list")
            except Exception as e:  # noqa: BLE001
                rec.fail(f"C15/{case['kind']}/raised/{exc_bucket(e)}", f"{step_str(j)} on {case['size']} individuals, target {k}: raised {e!r}")
                return
            if n != k:
                rel = "target==len(population)" if k == case["size"] else "target<len(population)"
                rec.fail(
                    f"C15/{case['kind']}/wrong-size/{rel}/{'over' if n > k else 'under'}",
                    f"{step_str(j)} on {case['size']} individuals asked for {k} yielded {n} (rounded shares {shares})",
                )
        finally:
            w.cleanup()


class Compositions(Facet):
    name = "step_compositions"

    def budget(self, tier):
        return (150, 6) if tier == "quick" else (1500, 16)

    def strategy(self, tier):
        return st.builds(
            lambda step, size, dk, form, seed, rep: {"step": step, "size": size, "k": max(1, size - dk), "form": form, "seed": seed, "rep": rep},
            step_strategy(),
            st.one_of(st.integers(2, 12), st.integers(2, 40 if tier == "quick" else 150)),
            st.sampled_from([0, 0, 0, 1, 2, 5]),
            st.sampled_from(["list", "list", "population", "iterator", "generator"]),
            st.integers(0, 2**31),
            st.sampled_from(["tree", "tree", "ge"]),
        )

    def run(self, case, rec):
        from geneticengine.evaluation.sequential import SequentialEvaluator
        from geneticengine.evaluation.tracker import SingleObjectiveProgressTracker

        w = make_world(case["seed"], case["rep"])
        try:
            problem = make_problem(w, nan=case["seed"] % 5 == 1)
            rec.label("fitness:with-NaN" if case["seed"] % 5 == 1 else "fitness:finite")
            ev = SequentialEvaluator()
            tracker = SingleObjectiveProgressTracker(problem, ev)
            pop = make_population(w, case["size"], problem, ev)
            j, k, form = case["step"], case["k"], case["form"]
            ks = kinds_in(j)
            if k < 2 and "crossover" in ks:
                rec.discard()
                return
            rec.label("form:" + form, *["has:" + x for x in sorted(ks)])
            rec.sample({"step": step_str(j), "size": case["size"], "k": k, "form": form}, limit=3)
            if ks & {"par", "xpar", "seq"} or form != "list":
                rec.nontrivial(case)
            formclass = "reiterable" if form in ("list", "population") else "one-shot-iterator"
            rel = "k==len" if k == case["size"] else "k<len"
            try:
                n = apply_and_count(build_step(j), w, problem, ev, pop, k, form, tracker)
            except Exception as e:  # noqa: BLE001
                rec.fail(
                    f"C15/composition/{culprit(j)}/{formclass}/raised-{type(e).__name__}",
                    f"{step_str(j)} on {case['size']} individuals ({form}), target {k}: raised {e!r} [{exc_bucket(e)}]",
                )
                return
            if n != k:
                rec.fail(
                    f"C15/composition/{culprit(j)}/{formclass}/{rel}/{'over' if n > k else 'under'}",
                    f"{step_str(j)} on {case['size']} individuals ({form}) asked for {k} yielded {n}",
                )
                return
            # the SAME step object asked again for another size (a step is configured once and
            # reused, e.g. across generations and runs)
            step = build_step(j)
            size2 = case["size"] + 1 + case["seed"] % 4
            k2 = max(2, size2 - case["seed"] % 3)
            try:
                apply_and_count(step, w, problem, ev, pop, k, "list", tracker)
                pop2 = make_population(w, size2, problem, ev)
                n2 = apply_and_count(step, w, problem, ev, pop2, k2, "list", tracker)
            except Exception as e:  # noqa: BLE001
                rec.fail(f"C15/composition-reused/{culprit(j)}/raised-{type(e).__name__}", f"{step_str(j)} reused with target {k2} after target {k}: raised {e!r}")
                return
            if n2 != k2:
                rec.fail(
                    f"C15/composition-reused/{culprit(j)}/{'over' if n2 > k2 else 'under'}",
                    f"the same {step_str(j)} object asked for {k} of {case['size']} and then for {k2} of {size2} individuals yielded {n2} the second time",
                )
        finally:
            w.cleanup()


class Initializers(Facet):
    name = "initializers"

    def budget(self, tier):
        return (120, 3) if tier == "quick" else (800, 8)

    def strategy(self, tier):
        return st.builds(
            lambda init, k, inj, seed, xd: {"init": init, "k": k, "injected": inj, "seed": seed, "extra_depth": xd},
            st.sampled_from(["standard", "generic", "full", "grow", "pigrow", "ramped", "halfandhalf", "inject", "inject", "inject-individuals", "inject-grow"]),
            st.integers(1, 12),
            st.integers(0, 15),
            st.integers(0, 2**31),
            st.sampled_from([0, 0, 1, 2, 3]),
        )

    def run(self, case, rec):
        from geneticengine.algorithms.gp.operators.initializers import HalfAndHalfInitializer, StandardInitializer
        from geneticengine.representations.common import GenericPopulationInitializer
        from geneticengine.representations.tree.operators import (
            FullInitializer,
            GrowInitializer,
            InjectInitialPopulationWrapper,
            PositionIndependentGrowInitializer,
            RampedHalfAndHalfInitializer,
        )
        from geneticengine.solutions.individual import Individual

        w = make_world(case["seed"], extra_depth=case.get("extra_depth", 0))
        try:
            problem = make_problem(w)
            k = case["k"]
            name = case["init"]
            rec.label("init:" + name, f"grammar-min-depth:{1 + case.get('extra_depth', 0)}")
            d = w.max_depth
            if name == "standard":
                init = StandardInitializer()
            elif name == "generic":
                init = GenericPopulationInitializer()
            elif name == "full":
                init = FullInitializer(d)
            elif name == "grow":
                init = GrowInitializer()
            elif name == "pigrow":
                init = PositionIndependentGrowInitializer(d)
            elif name == "ramped":
                init = RampedHalfAndHalfInitializer(d)
            elif name == "halfandhalf":
                init = HalfAndHalfInitializer(FullInitializer(d).initialize, GrowInitializer().initialize)
            else:
                m = min(case["injected"], k + 3)
                progs = [w.rep.create_genotype(w.random) for _ in range(m)]
                if name == "inject-individuals":
                    progs = [Individual(p, w.rep) for p in progs]
                init = InjectInitialPopulationWrapper(progs, GrowInitializer() if name == "inject-grow" else StandardInitializer())
                rec.label(f"injected:{'0' if m == 0 else ('<k' if m < k else ('==k' if m == k else '>k'))}")
                rec.nontrivial(case)
            rec.sample(case, limit=2)
            try:
                n = len(list(init.initialize(problem, w.rep, w.random, k)))
            except Exception as e:  # noqa: BLE001
                sub = ""
                if name.startswith("inject"):
                    m = min(case["injected"], k + 3)
                    sub = "/no-injected-programs" if m == 0 else "/some-injected"
                rec.fail(f"C15/initializer/{name.split('-')[0]}{sub}/raised-{type(e).__name__}", f"{name} initialiser asked for {k} (injected {case['injected']}): raised {e!r}")
                return
            if n != k:
                rec.fail(
                    f"C15/initializer/{name.split('-')[0]}/{'over' if n > k else 'under'}",
                    f"{name} initialiser asked for {k} yielded {n}" + (f" (injected {min(case['injected'], k + 3)} programs)" if name.startswith("inject") else ""),
                )
                return
            k2 = 1 + (k + 3) % 9
            try:
                n2 = len(list(init.initialize(problem, w.rep, w.random, k2)))
            except Exception as e:  # noqa: BLE001
                rec.fail(f"C15/initializer-reused/{name.split('-')[0]}/raised-{type(e).__name__}", f"the same {name} initialiser asked for {k} and then for {k2}: raised {e!r}")
                return
            if n2 != k2:
                rec.fail(f"C15/initializer-reused/{name.split('-')[0]}/{'over' if n2 > k2 else 'under'}", f"the same {name} initialiser object asked for {k} and then for {k2} yielded {n2} the second time")
        finally:
            w.cleanup()


class GPRuns(Facet):
    name = "gp_generations"

    def budget(self, tier):
        return (40, 6) if tier == "quick" else (300, 16)

    def strategy(self, tier):
        from vk.props.c14 import gp_steps

        return st.one_of(st.integers(2, 14), st.integers(2, 14 if tier == "quick" else 120)).flatmap(
            lambda pop: st.builds(
                lambda step, gens, seed, rep: {"popsize": pop, "step": step, "gens": gens, "seed": seed, "rep": rep, "extra_depth": seed % 4 if seed % 3 == 0 else 0, "init": ["default", "grow", "pigrow", "ramped"][(seed // 7) % 4] if rep == "tree" else "default"},
                st.one_of(gp_steps(pop), gp_steps(pop), step_strategy()),
                st.integers(1, 5),
                st.integers(0, 2**31),
                st.sampled_from(["tree", "ge"]),
            ),
        )

    def run(self, case, rec):
        from geneticengine.algorithms.gp.gp import GeneticProgramming
        from geneticengine.evaluation.budget import SearchBudget
        from geneticengine.evaluation.recorder import SearchRecorder
        from geneticengine.evaluation.sequential import SequentialEvaluator
        from geneticengine.evaluation.tracker import SingleObjectiveProgressTracker

        w = make_world(case["seed"], case["rep"], extra_depth=case.get("extra_depth", 0))
        try:
            problem = make_problem(w, nan=case["seed"] % 5 == 1)
            rec.label("fitness:with-NaN" if case["seed"] % 5 == 1 else "fitness:finite")
            seen = []
            extra = {}
            if case.get("init", "default") != "default":
                extra["population_initializer"] = w.initializer(case["init"])
            rec.label("initializer:" + case.get("init", "default"), f"grammar-min-depth:{1 + case.get('extra_depth', 0)}")

            class Spy(SearchRecorder):
                def register(self, tracker, individual, problem, is_best):
                    seen.append(individual.metadata.get("generation"))

            class GenBudget(SearchBudget):
                def __init__(self, g):
                    self.g, self.n = g, 0

                def is_done(self, tracker):
                    self.n += 1
                    return self.n > self.g

            j = case["step"]
            P = case["popsize"]
            rec.label(*["has:" + x for x in sorted(kinds_in(j))])
            rec.sample({"step": step_str(j), "popsize": P, "generations": case["gens"]}, limit=2)
            rec.nontrivial(case)
            tracker = SingleObjectiveProgressTracker(problem, SequentialEvaluator(), recorders=[Spy()])
            gp = GeneticProgramming(problem=problem, budget=GenBudget(case["gens"]), representation=w.rep, random=w.random, tracker=tracker, population_size=P, step=build_step(j), **extra)
            try:
                gp.search()
            except Exception as e:  # noqa: BLE001
                rec.fail(
                    f"C15/gp-run/{culprit(j)}/raised-{type(e).__name__}",
                    f"GP(population_size={P}, step={step_str(j)}) raised {e!r} [{exc_bucket(e)}] after generations {sorted(set(x for x in seen if x is not None))}",
                )
                return
            sizes = {}
            for g in seen:
                sizes[g] = sizes.get(g, 0) + 1
            for g in sorted(sizes):
                if sizes[g] != P:
                    rec.fail(
                        f"C15/gp-run/{culprit(j)}/{'initial-generation' if g == 0 else 'later-generation'}/{'over' if sizes[g] > P else 'under'}",
                        f"GP(population_size={P}, step={step_str(j)}): generation {g} has {sizes[g]} individuals (all generations: {sizes})",
                    )
                    return
        finally:
            w.cleanup()


class SelectionUnderParallelEvaluator(Facet):
    """Selection-type steps (elitism, tournament and their sequence / parallel compositions) applied
    with a ParallelEvaluator to a population that already carries its fitness (as every population
    after generation 0 does): asked for k they yield k, whichever evaluator is in use."""

    name = "selection_steps_with_parallel_evaluator"
    fuzz_runs = 0  # cases may spawn worker processes: too slow for a coverage-guided campaign

    def budget(self, tier):
        return (120, 2) if tier == "quick" else (600, 8)

    def strategy(self, tier):
        sel = st.one_of(st.just(["elitism"]), st.builds(lambda t, r: ["tournament", t, r], st.integers(1, 4), st.booleans()), st.just(["identity"]))
        comp = st.one_of(
            sel,
            st.builds(lambda a, b: ["seq", [a, b]], sel, sel),
            st.builds(lambda xs, ws: ["par", xs, ws[: len(xs)]], st.lists(sel, min_size=1, max_size=3), st.lists(st.integers(1, 9), min_size=3, max_size=3)),
        )
        return st.builds(lambda step, n, dk, form, pre: {"step": step, "size": n, "k": max(1, n - dk), "form": form, "pre_evaluated": pre},
                         comp, st.integers(2, 12), st.sampled_from([0, 0, 1, 3]), st.sampled_from(["list", "population", "iterator"]), st.sampled_from([True, True, False]))

    def run(self, case, rec):
        from geneticengine.evaluation.parallel import ParallelEvaluator
        from geneticengine.evaluation.sequential import SequentialEvaluator
        from geneticengine.evaluation.tracker import SingleObjectiveProgressTracker
        from geneticengine.problems import SingleObjectiveProblem
        from geneticengine.random.sources import NativeRandomSource
        from geneticengine.solutions.individual import Individual
        from vk.props.c16 import TableRep

        rep = TableRep()
        problem = SingleObjectiveProblem(lambda p: float(p[1]))
        pop = [Individual((i, (i * 7) % 5), rep) for i in range(case["size"])]
        if case["pre_evaluated"]:
            SequentialEvaluator().evaluate(problem, pop)
        ev = ParallelEvaluator()
        rec.label("pre-evaluated" if case["pre_evaluated"] else "not-evaluated-yet", *["has:" + x for x in sorted(kinds_in(case["step"]))])
        rec.sample({"step": step_str(case["step"]), "size": case["size"], "k": case["k"], "form": case["form"]}, limit=2)
        try:
            n = len(list(build_step(case["step"]).apply(problem, ev, rep, NativeRandomSource(case["size"]), as_form(pop, case["form"], SingleObjectiveProgressTracker(problem, ev)), case["k"], 1)))
        except Exception as e:  # noqa: BLE001
            rec.fail(f"C15/parallel-evaluator/{culprit(case['step'])}/raised-{type(e).__name__}", f"{step_str(case['step'])} asked for {case['k']} of {case['size']} with a ParallelEvaluator raised {e!r}")
            return
        if case["pre_evaluated"]:
            rec.nontrivial((step_str(case["step"]), case["size"], case["k"], case["form"]))
        if n != case["k"]:
            rec.fail(
                f"C15/parallel-evaluator/{culprit(case['step'])}/{'over' if n > case['k'] else 'under'}",
                f"{step_str(case['step'])} asked for {case['k']} of a population of {case['size']} ({'already evaluated' if case['pre_evaluated'] else 'not evaluated yet'}, {case['form']}) yielded {n} with a ParallelEvaluator",
            )


FACETS = [ExhaustiveWeights(), Compositions(), Initializers(), GPRuns(), SelectionUnderParallelEvaluator()]
