"""C01 — every program the library produces is well-typed for its grammar."""
from __future__ import annotations

from vk.core import Facet
from vk.refmodel import canon, canon_nodes, canon_str, well_typed
from vk.spec import Flags, spec_forms, spec_str
from vk.world import World, exc_bucket, is_library_error, world_cases

LEVEL = "exploration"
RULE = (
    "Hypothesis draws a grammar spec (abstract layers, base types, lists, bare lists, tuples, unions, annotated and "
    "dependent fields), one of the five representations, a decider, a depth limit (grammar minimum + k), a seed, a gene "
    "length and a sequence of create/map/mutate/crossover/search operations; every program returned by create->map, "
    "mutate, crossover and every argument the fitness function receives is judged by the reference well-typedness "
    "predicate (exact base types, real tuples, registered productions), walked twice (laziness); any exception escaping "
    "must be defined in a geneticengine module. Non-trivial = a produced program with >= 2 nodes from a spec using a "
    "non-base type form; distinct by (representation, canonical program)."
)
ASSUMPTIONS = [
    "grammars use only documented declaration forms (ABC/@abstract, @dataclass, typing.Union, Annotated with shipped or small user metahandlers)",
    "library error = exception class defined in a geneticengine.* module",
    "op sequences <= 12 operations, depth limit <= grammar minimum + 5",
]


def _exc_b(rep, case, e):
    if isinstance(e, RecursionError) and case["decider"] == "progressive":
        return "C01/exc/RecursionError/progressive-decider"
    return f"C01/exc/{rep}/{exc_bucket(e)}"


class TypedOps(Facet):
    name = "typed_ops"
    flags = Flags(dependent=True, user_mh=True)
    reps = ("tree", "ge", "sge", "dsge")

    def budget(self, tier):
        return (100, 8) if tier == "quick" else (500, 16)

    def strategy(self, tier):
        return world_cases(self.flags, reps=self.reps, max_ops=10, with_search=True)

    def run(self, case, rec):
        w = World(case)
        try:
            self._run(case, rec, w)
        finally:
            w.cleanup()

    def _run(self, case, rec, w):
        rep = case["rep"]
        if not w.productive():
            rec.discard()
            return
        rec.label("rep:" + rep, "decider:" + case["decider"])
        forms = spec_forms(case["spec"])
        try:
            w.build()
        except Exception as e:  # noqa: BLE001
            if is_library_error(e):
                rec.label("build-rejected-by-library")
                return
            rec.fail(f"C01/exc/{rep}/build/{exc_bucket(e)}", f"constructing the representation raised {e!r} on {spec_str(case['spec'])}")
            return
        info = w.info
        start_t = ["ref", info.start]

        def judge(p, how):
            c1 = canon(p, info)
            c2 = canon(p, info)
            if c1 != c2:
                rec.fail(f"C01/lazy/{rep}", f"{how}: two traversals differ: {canon_str(c1)} vs {canon_str(c2)}")
            errs = well_typed(p, start_t, info)
            for er in errs[:3]:
                rec.fail(
                    f"C01/typed/{er.clause}/{'stack' if rep == 'stack' else ('dsge' if rep == 'dsge' else 'treegen')}",
                    f"{how} ({rep}, decider {case['decider']}): {er!r}; program {canon_str(c1)}; grammar {spec_str(case['spec'])}",
                )
            if canon_nodes(c1) >= 2 and (forms - {"int", "float", "str", "bool", "ref"}):
                rec.nontrivial((rep, c1))
            for f in forms:
                rec.label(f"form:{f}@{rep}")
            rec.label(f"judged:{how}@{rep}")

        def obs(ev, w):
            if ev.exc is not None:
                if is_library_error(ev.exc):
                    rec.label(f"library-error:{type(ev.exc).__name__}@{rep}")
                    rec.discard()
                else:
                    rec.fail(
                        _exc_b(rep, case, ev.exc),
                        f"{ev.op} raised foreign {ev.exc!r} ({rep}, decider {case['decider']}, max_depth {w.max_depth}) on {spec_str(case['spec'])}",
                    )
                return
            for i in ev.outputs:
                try:
                    p = w.phenotype(i)
                except Exception as e:  # noqa: BLE001
                    if is_library_error(e):
                        rec.label(f"library-error:{type(e).__name__}@{rep}")
                        rec.discard()
                    else:
                        rec.fail(
                            _exc_b(rep, case, e),
                            f"mapping the genotype from {ev.op} raised foreign {e!r} ({rep}, decider {case['decider']}, max_depth {w.max_depth}) on {spec_str(case['spec'])}",
                        )
                    continue
                judge(p, ev.kind)
            if ev.kind == "map":
                judge(ev.extra["phenotype"], "map")
            if ev.kind == "search":
                for p in ev.extra["evaluated"]:
                    judge(p, "fitness-arg")
                b = ev.extra["best"]
                if b is not None:
                    judge(b.get_phenotype(), "search-result")

        rec.sample({"spec": spec_str(case["spec"]), "rep": rep, "decider": case["decider"], "ops": case["ops"]})
        w.run(obs)


class StackPlain(TypedOps):
    """Stack representation on grammars without refined (Annotated) fields: the confirmed
    finding 'stack treats Annotated[...] as a constructible symbol' is excluded by
    construction here so that the search continues behind it."""

    name = "typed_ops_stack_plain"
    flags = Flags(refined=False, lists=False, dependent=False, user_mh=False)
    reps = ("stack",)

    def budget(self, tier):
        return (100, 3) if tier == "quick" else (400, 8)


class StackRefined(TypedOps):
    name = "typed_ops_stack_refined"
    reps = ("stack",)

    def budget(self, tier):
        return (60, 2) if tier == "quick" else (200, 4)


FACETS = [TypedOps(), StackPlain(), StackRefined()]
