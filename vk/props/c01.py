"""C01 — every program the library produces is well-typed for its grammar."""
from __future__ import annotations

from vk.core import Facet
from vk.refmodel import canon, canon_nodes, canon_str, well_typed
from vk.spec import Flags, spec_forms, spec_str, specs
from vk.world import World, exc_bucket, is_library_error, world_cases

LEVEL = "exploration"
RULE = (
    "Hypothesis draws a grammar spec (abstract layers, base types, lists, bare lists, tuples, unions, annotated and "
    "dependent fields), one of the five representations, a decider, a depth limit (grammar minimum + k), a seed, a gene "
    "length and a sequence of create/map/mutate/crossover/search operations; every program returned by create->map, "
    "mutate, crossover and every argument the fitness function receives is judged by the reference well-typedness "
    "predicate (exact base types, real tuples, registered productions), walked twice (laziness); any exception escaping "
    "must be defined in a geneticengine module. Non-trivial = a produced program with >= 2 nodes from a spec using a "
    "non-base type form; distinct by (representation, canonical program)."
)
ASSUMPTIONS = [
    "grammars use only documented declaration forms (ABC/@abstract, @dataclass, typing.Union, Annotated with shipped or small user metahandlers)",
    "library error = exception class defined in a geneticengine.* module",
    "op sequences <= 12 operations, depth limit <= grammar minimum + 5",
]


def _exc_b(rep, case, e):
    if isinstance(e, RecursionError) and case["decider"] == "progressive":
        return "C01/exc/RecursionError/progressive-decider"
    return f"C01/exc/{rep}/{exc_bucket(e)}"


class TypedOps(Facet):
    name = "typed_ops"
    flags = Flags(dependent=True, user_mh=True, infeasible=True)
    reps = ("tree", "ge", "sge", "dsge")

    def budget(self, tier):
        return (100, 8) if tier == "quick" else (500, 16)

    def strategy(self, tier):
        return world_cases(self.flags, reps=self.reps, max_ops=10, with_search=True, with_init="tree" in self.reps, with_edge=True)

    def run(self, case, rec):
        w = World(case)
        try:
            self._run(case, rec, w)
        finally:
            w.cleanup()

    def _run(self, case, rec, w):
        rep = case["rep"]
        if not w.productive():
            rec.discard()
            return
        rec.label("rep:" + rep, "decider:" + case["decider"])
        forms = spec_forms(case["spec"])
        try:
            w.build()
        except Exception as e:  # noqa: BLE001
            if is_library_error(e):
                rec.label("build-rejected-by-library")
                return
            rec.fail(f"C01/exc/{rep}/build/{exc_bucket(e)}", f"constructing the representation raised {e!r} on {spec_str(case['spec'])}")
            return
        info = w.info
        start_t = ["ref", info.start]

        def judge(p, how):
            c1 = canon(p, info)
            c2 = canon(p, info)
            if c1 != c2:
                rec.fail(f"C01/lazy/{rep}", f"{how}: two traversals differ: {canon_str(c1)} vs {canon_str(c2)}")
            errs = well_typed(p, start_t, info)
            for er in errs[:3]:
                rec.fail(
                    f"C01/typed/{er.clause}/{'stack' if rep == 'stack' else ('dsge' if rep == 'dsge' else 'treegen')}",
                    f"{how} ({rep}, decider {case['decider']}): {er!r}; program {canon_str(c1)}; grammar {spec_str(case['spec'])}",
                )
            if canon_nodes(c1) >= 2 and (forms - {"int", "float", "str", "bool", "ref"}):
                rec.nontrivial((rep, c1))
            for f in forms:
                rec.label(f"form:{f}@{rep}")
            rec.label(f"judged:{how}@{rep}")

        def obs(ev, w):
            if ev.exc is not None:
                if is_library_error(ev.exc):
                    rec.label(f"library-error:{type(ev.exc).__name__}@{rep}")
                    rec.discard()
                else:
                    rec.fail(
                        _exc_b(rep, case, ev.exc),
                        f"{ev.op} raised foreign {ev.exc!r} ({rep}, decider {case['decider']}, max_depth {w.max_depth}) on {spec_str(case['spec'])}",
                    )
                return
            for i in ev.outputs:
                try:
                    p = w.phenotype(i)
                except Exception as e:  # noqa: BLE001
                    if is_library_error(e):
                        rec.label(f"library-error:{type(e).__name__}@{rep}")
                        rec.discard()
                    else:
                        rec.fail(
                            _exc_b(rep, case, e),
                            f"mapping the genotype from {ev.op} raised foreign {e!r} ({rep}, decider {case['decider']}, max_depth {w.max_depth}) on {spec_str(case['spec'])}",
                        )
                    continue
                judge(p, ev.kind)
            if ev.kind == "map":
                judge(ev.extra["phenotype"], "map")
            if ev.kind == "search":
                for p in ev.extra["evaluated"]:
                    judge(p, "fitness-arg")
                b = ev.extra["best"]
                if b is not None:
                    judge(b.get_phenotype(), "search-result")

        rec.sample({"spec": spec_str(case["spec"]), "rep": rep, "decider": case["decider"], "ops": case["ops"]})
        w.run(obs)


class StackPlain(TypedOps):
    """Stack representation on grammars without refined (Annotated) fields: the confirmed
    finding 'stack treats Annotated[...] as a constructible symbol' is excluded by
    construction here so that the search continues behind it."""

    name = "typed_ops_stack_plain"
    flags = Flags(refined=False, lists=False, dependent=False, user_mh=False)
    reps = ("stack",)

    def budget(self, tier):
        return (100, 3) if tier == "quick" else (400, 8)


class StackRefined(TypedOps):
    name = "typed_ops_stack_refined"
    reps = ("stack",)

    def budget(self, tier):
        return (60, 2) if tier == "quick" else (200, 4)


class RedeclaredField(Facet):
    """The documented way to (re)declare a field is Prod.__init__.__annotations__[f] = T before
    extracting a grammar. After programs of a first grammar were produced, one field is
    re-declared with another type, a new grammar is extracted from the same classes and every
    program produced from it must be well-typed for the NEW declaration."""

    name = "redeclared_field"

    def budget(self, tier):
        return (60, 4) if tier == "quick" else (300, 16)

    def strategy(self, tier):
        from hypothesis import strategies as st

        newt = st.sampled_from([["int"], ["float"], ["bool"], ["str"], ["ann", ["int"], ["IntRange", 0, 3]], ["ann", ["str"], ["VarRange", ["x", "y"]]], ["list", ["bool"]], "abstract"])
        fl = Flags(dependent=False, user_mh=False, max_concrete=5)
        return st.builds(
            lambda case, ci, fi, nt: {**case, "ci": ci, "fi": fi, "new_type": nt},
            world_cases(fl, reps=("tree", "ge", "sge", "dsge"), deciders=("maxdepth", "pigrow"), max_ops=5, depth_extras=(1, 2, 3), with_map=False),
            st.integers(0, 20),
            st.integers(0, 5),
            newt,
        )

    def run(self, case, rec):
        from vk.refmodel import SpecInfo
        from vk.spec import redeclare, te_refs

        rep = case["rep"]
        try:
            w1 = World(case)
        except Exception:  # noqa: BLE001
            rec.discard()
            return
        try:
            if not w1.productive():
                rec.discard()
                return
            try:
                w1.build()
                w1.run(lambda ev, w: [w.phenotype(i) for i in ev.outputs] if ev.exc is None else None)
            except Exception:  # noqa: BLE001
                pass
            with_fields = [c for c in case["spec"]["concretes"] if c["fields"]]
            if not with_fields:
                rec.discard()
                return
            c = with_fields[case["ci"] % len(with_fields)]
            fn, old_t = c["fields"][case["fi"] % len(c["fields"])]
            nt = case["new_type"]
            if nt == "abstract":
                nt = ["ref", case["spec"]["abstracts"][0]["name"]]
            if nt == old_t:
                rec.discard()
                return
            spec2 = redeclare(w1.mat, c["name"], fn, nt)
            case2 = {**case, "spec": spec2}
            try:
                w2 = World(case2, mat=w1.mat)
            except Exception:  # noqa: BLE001
                rec.discard()
                return
            if not w2.productive():
                rec.discard()
                return
            try:
                w2.build()
            except Exception:  # noqa: BLE001
                rec.discard()
                return
            info = w2.info
            start_t = ["ref", info.start]
            rec.label("rep:" + rep, "new-type:" + (nt[0] if nt[0] != "ann" else "ann"))
            rec.sample({"spec": spec_str(case["spec"]), "redeclared": f"{c['name']}.{fn}: {old_t} -> {nt}", "rep": rep, "ops": case["ops"]})

            def obs(ev, w):
                if ev.exc is not None:
                    rec.discard()
                    return
                for i in ev.outputs:
                    try:
                        p = w.phenotype(i)
                    except Exception:  # noqa: BLE001
                        rec.discard()
                        continue
                    errs = well_typed(p, start_t, info)
                    cc = canon(p, info)
                    if c["name"] in str(cc):
                        rec.nontrivial((rep, cc, c["name"], fn))
                    for er in errs[:2]:
                        rec.fail(
                            f"C01/redeclared/{er.clause}",
                            f"{ev.kind} ({rep}) after re-declaring {c['name']}.{fn} from {old_t} to {nt} and extracting a new grammar: {er!r}; program {canon_str(cc)}; grammar {spec_str(spec2)}",
                        )

            w2.run(obs)
        finally:
            w1.cleanup()


class CooperativeSearch(Facet):
    """CooperativeGP co-evolves two species with two DIFFERENT grammars (default representations):
    every first argument the fitness function receives must be a well-typed program of grammar 1,
    every second one a well-typed program of grammar 2, and so must the returned pair."""

    name = "cooperative_gp_two_grammars"

    def budget(self, tier):
        return (6, 4) if tier == "quick" else (100, 8)

    def strategy(self, tier):
        from hypothesis import strategies as st

        fl = Flags(dependent=False, user_mh=False, max_concrete=5, max_abstract=2, sibling=False, bare_lists=False, max_list_size=2)
        return st.builds(
            lambda s1, s2, seed, default_reps: {"spec1": s1, "spec2": s2, "seed": seed, "default_representations": default_reps},
            specs(fl), specs(fl), st.integers(0, 2**31), st.sampled_from([True, True, False]),
        )

    def run(self, case, rec):
        from geneticengine.algorithms.gp.cooperativegp import CooperativeGP
        from geneticengine.evaluation.budget import EvaluationBudget
        from geneticengine.random.sources import NativeRandomSource
        from geneticengine.representations.tree.initializations import MaxDepthDecider
        from geneticengine.representations.tree.treebased import TreeBasedRepresentation
        from vk.refmodel import SpecInfo
        from vk.spec import materialise

        m1, m2 = materialise(case["spec1"]), materialise(case["spec2"])
        try:
            try:
                g1, g2 = m1.grammar(), m2.grammar()
            except Exception:  # noqa: BLE001
                rec.discard()
                return
            if g1.get_min_tree_depth() >= 1000 or g2.get_min_tree_depth() >= 1000:
                rec.discard()
                return
            i1, i2 = SpecInfo(case["spec1"], m1.classes), SpecInfo(case["spec2"], m2.classes)
            bad = []

            def judge(p, info, which, how):
                errs = well_typed(p, ["ref", info.start], info)
                if errs and not bad:
                    bad.append((which, how, errs[0], canon_str(canon(p, info)) if not errs[0].clause.startswith("not-") else repr(p)[:120]))

            def f(a, b):
                judge(a, i1, 1, "fitness-arg")
                judge(b, i2, 2, "fitness-arg")
                return float(len(repr(a)) % 7 - len(repr(b)) % 5)

            r = NativeRandomSource(case["seed"])
            kw = dict(budget=EvaluationBudget(8))
            reps = {}
            if not case["default_representations"]:
                reps = dict(
                    representation1=TreeBasedRepresentation(g1, MaxDepthDecider(r, g1, g1.get_min_tree_depth() + 2)),
                    representation2=TreeBasedRepresentation(g2, MaxDepthDecider(r, g2, g2.get_min_tree_depth() + 2)),
                )
            rec.label("default-representations" if case["default_representations"] else "explicit-representations")
            try:
                b1, b2 = CooperativeGP(g1, g2, f, population1_size=3, population2_size=3, coevolutions=2, random=r, kwargs1=dict(kw), kwargs2=dict(kw), **reps).search()
            except Exception as e:  # noqa: BLE001
                if is_library_error(e) or isinstance(e, RecursionError):
                    rec.discard()
                    rec.label("discarded:" + type(e).__name__)
                    return
                if not bad:
                    rec.discard()
                    rec.label("discarded:" + type(e).__name__)
                    return
                b1 = b2 = None
            if b1 is not None:
                judge(b1, i1, 1, "search-result")
                judge(b2, i2, 2, "search-result")
            rec.nontrivial((spec_str(case["spec1"]), spec_str(case["spec2"]), case["seed"]))
            rec.sample({"spec1": spec_str(case["spec1"]), "spec2": spec_str(case["spec2"])}, limit=2)
            if bad:
                which, how, er, txt = bad[0]
                rec.fail(
                    f"C01/cooperative/species-{which}/{er.clause}",
                    f"CooperativeGP ({'default' if case['default_representations'] else 'explicit'} representations): {how} #{which} is not a program of grammar {which}: {er!r}; value {txt}; grammar 1 {spec_str(case['spec1'])}; grammar 2 {spec_str(case['spec2'])}",
                )
        finally:
            m1.cleanup()
            m2.cleanup()


FACETS = [TypedOps(), StackPlain(), StackRefined(), RedeclaredField(), CooperativeSearch()]
