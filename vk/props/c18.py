"""C18 — random primitives honour their contracts for every random source."""
from __future__ import annotations

import sys
from collections import Counter

from hypothesis import strategies as st

from vk.core import Facet
from vk.sources import ScriptedSource, enumerate_collect

LEVEL = "exploration"
RULE = (
    "Hypothesis draws a source kind (NativeRandomSource(seed), GE ListWrapper(genes), stack ListWrapper(genes), "
    "StructuredListWrapper(genes)) and a sequence of primitive calls (randint/random_float/choice/choice_weighted/"
    "shuffle/pop_random) with bounds incl. negative, equal, width 1000/1001/4000/1e6, +-sys.maxsize; gene values from "
    "{0,1,width,width+1,sys.maxsize,random}; every result is judged against the primitive's contract and against a twin "
    "source built from the same seed/genes. choice_weighted is additionally driven by EVERY possible draw (weights on a "
    "0.001 grid, totals <= 2000) and by boundary draws for large totals; BaseDecider.random_int is driven by every decision "
    "path of a scripted source. Non-trivial = width > 1000, or a zero weight in first position, or a gene that is a "
    "multiple of the width; distinct by hash of the call."
)
ASSUMPTIONS = [
    "gene lists are non-empty and hold values the library itself produces (0..sys.maxsize)",
    "choice/pop_random/shuffle are called with non-empty lists (documented precondition: assert choices)",
    "float bounds judged with tolerance 1e-9*max(1,|lo|,|hi|)",
    "weight vectors contain at least one positive weight",
]

MAXI = sys.maxsize


class _Box:
    """A list element with value equality but its own identity."""

    __slots__ = ("v",)

    def __init__(self, v):
        self.v = v

    def __eq__(self, o):
        return isinstance(o, _Box) and self.v == o.v

    def __hash__(self):
        return hash(self.v)

    def __repr__(self):
        return f"<{self.v!r}>"


def make_source(desc):
    from geneticengine.random.sources import NativeRandomSource
    from geneticengine.representations.grammatical_evolution.ge import ListWrapper as GEWrapper
    from geneticengine.representations.grammatical_evolution.structured_ge import StructuredListWrapper
    from geneticengine.representations.stackgggp import ListWrapper as StackWrapper

    k = desc[0]
    if k == "native":
        return NativeRandomSource(desc[1])
    if k == "ge":
        return GEWrapper(list(desc[1]))
    if k == "stack":
        return StackWrapper(list(desc[1]))
    if k == "sge":
        return StructuredListWrapper({"$infrastructure": list(desc[1])})
    if k == "dsge":
        # the genotype-backed source dSGE hands to metahandlers during mapping; genes as left by
        # create (0..1024) and by mutate (0..sys.maxsize)
        from geneticengine.representations.grammatical_evolution import dynamic_structured_ge as d

        if not hasattr(d, "GenotypeSource"):
            return NativeRandomSource(0)
        gt = d.Genotype(NativeRandomSource(desc[2] if len(desc) > 2 else 0), {int: list(desc[1]), float: list(desc[1]), bool: list(desc[1])})
        return d.GenotypeSource(d.DynamicSGEDecider(gt, _tiny_grammar(), 5))
    raise ValueError(desc)


def tol(lo, hi):
    return 1e-9 * max(1.0, abs(lo), abs(hi))


def check_call(src, twin, call, rec, kind):
    """Executes one primitive call on src and twin; judges the result."""
    op = call[0]
    site = f"{kind}"
    if op == "randint":
        lo, hi = call[1], call[2]
        v = src.randint(lo, hi)
        v2 = twin.randint(lo, hi)
        if type(v) is not int or not (lo <= v <= hi):
            rec.fail(f"C18/{site}/randint-out-of-bounds", f"randint({lo},{hi}) -> {v!r}")
        if v != v2:
            rec.fail(f"C18/{site}/same-seed-different-stream", f"randint({lo},{hi}) -> {v!r} vs twin {v2!r}")
        if hi - lo > 1000:
            rec.nontrivial(("randint", kind, lo, hi, v))
    elif op == "random_float":
        lo, hi = call[1], call[2]
        v = src.random_float(lo, hi)
        v2 = twin.random_float(lo, hi)
        # the seeded source and equal bounds are judged exactly (the only float in [c, c] is c; a
        # refinement's validate() compares exactly, too); genotype-backed arithmetic gets a tolerance
        t = 0.0 if (lo == hi or kind == "native") else tol(lo, hi)
        if not isinstance(v, float) or not (lo - t <= v <= hi + t):
            rec.fail(f"C18/{site}/random_float-out-of-bounds" + ("/equal-bounds" if lo == hi else ""), f"random_float({lo!r},{hi!r}) -> {v!r}")
        if lo == hi and isinstance(lo, float) and lo != int(lo):
            rec.nontrivial(("float-eq", kind, lo, repr(v)))
        if v != v2:
            rec.fail(f"C18/{site}/same-seed-different-stream", f"random_float({lo},{hi}) -> {v!r} vs twin {v2!r}")
    elif op == "choice":
        opts = list(call[1])
        v = src.choice(list(opts))
        v2 = twin.choice(list(opts))
        if v not in opts:
            rec.fail(f"C18/{site}/choice-not-a-member", f"choice({opts}) -> {v!r}")
        if v != v2:
            rec.fail(f"C18/{site}/same-seed-different-stream", f"choice -> {v!r} vs twin {v2!r}")
    elif op == "choice_weighted":
        ws = list(call[1])
        opts = list(range(len(ws)))
        v = src.choice_weighted(list(opts), list(ws))
        v2 = twin.choice_weighted(list(opts), list(ws))
        if v not in opts:
            rec.fail(f"C18/{site}/choice_weighted-not-a-member", f"choice_weighted({ws}) -> {v!r}")
        elif ws[v] == 0:
            rec.fail(
                f"C18/{site}/choice_weighted-zero-weight-option",
                f"choice_weighted(options 0..{len(ws) - 1}, weights {ws}) returned option {v} of weight 0",
            )
        if v != v2:
            rec.fail(f"C18/{site}/same-seed-different-stream", f"choice_weighted -> {v!r} vs twin {v2!r}")
        if ws[0] == 0:
            rec.nontrivial(("cw", kind, tuple(ws), v))
    elif op == "shuffle":
        # elements are distinct objects that may compare equal: judged by identity
        xs = [_Box(x) for x in call[1]]
        out = src.shuffle(list(xs))
        out2 = twin.shuffle([_Box(x) for x in call[1]])
        if out is None or sorted(map(id, out)) != sorted(map(id, xs)):
            rec.fail(f"C18/{site}/shuffle-not-a-permutation", f"shuffle({xs}) -> {out!r} (as objects)")
        elif [b.v for b in out] != [b.v for b in out2]:
            rec.fail(f"C18/{site}/same-seed-different-stream", f"shuffle -> {out!r} vs twin {out2!r}")
    elif op == "pop_random":
        # elements are distinct objects that may compare equal (duplicate individuals, 1 / True /
        # 1.0): "removes exactly the returned element" is judged by identity
        xs = [_Box(x) for x in call[1]]
        work = list(xs)
        work2 = [_Box(x) for x in call[1]]
        v = src.pop_random(work)
        v2 = twin.pop_random(work2)
        if not any(v is x for x in xs):
            rec.fail(f"C18/{site}/pop_random-not-a-member", f"pop_random({xs}) -> {v!r}")
        else:
            left = sorted(id(x) for x in xs if x is not v)
            if sorted(map(id, work)) != left:
                pos = [i for i, x in enumerate(xs) if x is v]
                gone = [i for i, x in enumerate(xs) if not any(x is w for w in work)]
                rec.fail(
                    f"C18/{site}/pop_random-remainder-wrong",
                    f"pop_random({xs}) returned the element at position {pos} but the list lost the element(s) at position(s) {gone}; remainder {work}",
                )
            if len(set(call[1])) < len(call[1]):
                rec.nontrivial(("pop-dup", kind, tuple(call[1]), repr(v)))
        if (getattr(v, "v", v), [b.v for b in work]) != (getattr(v2, "v", v2), [b.v for b in work2]):
            rec.fail(f"C18/{site}/same-seed-different-stream", f"pop_random -> {v!r} vs twin {v2!r}")
    else:
        raise ValueError(call)


# ---- strategies -------------------------------------------------------------------------
def bounds():
    widths = st.one_of(
        st.integers(0, 12),
        st.sampled_from([0, 1, 999, 1000, 1001, 4000, 10**6, 2**31, MAXI // 2]),
        # widths whose half sits just below a power of ten (float log10 rounds up there)
        st.builds(lambda k, j: 2 * 10**k - j, st.integers(3, 18), st.integers(0, 4)),
        st.builds(lambda k, j: 10**k + j, st.integers(3, 18), st.integers(-2, 2)),
        st.integers(0, MAXI),
    )
    los = st.one_of(st.integers(-20, 20), st.sampled_from([-MAXI, -(MAXI - 1), -1000, 0, 1]), st.integers(-MAXI, MAXI))

    def mk(lo, w):
        hi = min(lo + w, MAXI)
        return (lo, hi)

    return st.builds(mk, los, widths)


def float_bounds():
    pool = [-100.0, -1.5, -0.3, 0.0, 0.1, 0.25, 1.0, 9.0, 10.0, 1e6, 19.99, -7.3, 123.456, 1 / 3, 6.02e23, 1e-300]
    vals = st.one_of(st.sampled_from(pool), st.floats(-1e6, 1e6, allow_nan=False))
    pair = st.tuples(vals, vals).map(lambda p: (min(p), max(p)))
    return st.one_of(pair, pair, vals.map(lambda c: (c, c)))


def weight_vectors():
    w = st.one_of(st.sampled_from([0, 0, 1, 2, 5]), st.sampled_from([0.0, 0.25, 0.5, 1.5]), st.floats(0.001, 10))
    free = st.lists(w, min_size=1, max_size=6).filter(lambda ws: any(x > 0 for x in ws))
    # the shape production weights have after normalisation: n equal (or proportional) fractions whose
    # floating-point running sum need not land exactly on their total; optionally behind zero weights
    equal = st.builds(
        lambda zeros, n, base: [0.0] * zeros + [base / n] * n,
        st.integers(0, 2),
        st.integers(2, 16),
        st.sampled_from([1.0, 1.0, 0.5, 2.0, 3.0, 0.3]),
    )
    prop = st.lists(st.integers(1, 9), min_size=2, max_size=12).map(lambda xs: [0.0] + [x / sum(xs) for x in xs])
    return st.one_of(free, free, equal, prop)


@st.composite
def call_seq(draw):
    calls = []
    n = draw(st.integers(1, 8))
    for _ in range(n):
        k = draw(st.sampled_from(["randint", "randint", "random_float", "choice", "choice_weighted", "choice_weighted", "shuffle", "pop_random"]))
        if k == "randint":
            lo, hi = draw(bounds())
            calls.append(["randint", lo, hi])
        elif k == "random_float":
            lo, hi = draw(float_bounds())
            calls.append(["random_float", lo, hi])
        elif k == "choice":
            calls.append(["choice", draw(st.lists(st.integers(0, 9), min_size=1, max_size=6))])
        elif k == "choice_weighted":
            calls.append(["choice_weighted", draw(weight_vectors())])
        elif k == "shuffle":
            calls.append(["shuffle", draw(st.lists(st.integers(0, 5), min_size=0, max_size=7))])
        else:
            calls.append(["pop_random", draw(st.lists(st.integers(0, 5), min_size=1, max_size=7))])
    return calls


@st.composite
def gene_lists(draw, calls):
    # gene values aimed at the widths used by the calls
    widths = [c[2] - c[1] for c in calls if c[0] == "randint"] or [1]
    special = [0, 1, MAXI]
    for w in widths:
        special += [w, w + 1, 2 * (w + 1)]
    for c in calls:
        if c[0] == "choice_weighted":
            tot = int(sum(c[1]) * 100000)
            special += [tot, tot - 1, tot + 1, 2 * tot + 1]
    special = [g for g in special if 0 <= g <= MAXI]
    gene = st.one_of(st.sampled_from(special), st.integers(0, MAXI), st.integers(0, 20))
    return draw(st.lists(gene, min_size=1, max_size=64))


@st.composite
def source_cases(draw):
    calls = draw(call_seq())
    kind = draw(st.sampled_from(["native", "ge", "stack", "sge", "dsge"]))
    if kind == "native":
        desc = ["native", draw(st.integers(0, 2**32))]
    else:
        desc = [kind, draw(gene_lists(calls))]
    return {"source": desc, "calls": calls}


class SourcesFacet(Facet):
    name = "sources"

    def budget(self, tier):
        return (1500, 1) if tier == "quick" else (20000, 16)

    def strategy(self, tier):
        return source_cases()

    def run(self, case, rec):
        desc = case["source"]
        src = make_source(desc)
        twin = make_source(desc)
        rec.label("source:" + desc[0])
        rec.sample(case)
        for call in case["calls"]:
            rec.label("op:" + call[0])
            if desc[0] != "native" and call[0] == "randint":
                genes = desc[1]
                w = call[2] - call[1] + 1
                if any(g % w == 0 and g > 0 for g in genes):
                    rec.nontrivial(("gene-multiple", desc[0], call[1], call[2]))
            check_call(src, twin, call, rec, desc[0])


# ---- choice_weighted under every draw ----------------------------------------------------
class FixedSource:
    """RandomSource whose randint returns a fixed (clamped) value; built lazily to subclass
    the library's abstract base."""

    _cls = None

    @classmethod
    def make(cls, v):
        if cls._cls is None:
            from geneticengine.random.sources import RandomSource

            class _Fixed(RandomSource):
                def __init__(self, v):
                    self.v = v
                    self.asked = None

                def randint(self, min, max):  # noqa: A002
                    self.asked = (min, max)
                    return builtins_min(builtins_max(self.v, min), max)

                def random_float(self, min, max):  # noqa: A002
                    return float(min)

            cls._cls = _Fixed
        return cls._cls(v)


import builtins  # noqa: E402

builtins_min = builtins.min
builtins_max = builtins.max


@st.composite
def grid_weights(draw):
    ws = draw(st.lists(st.sampled_from([0, 0.001, 0.002, 0.003, 0.005]), min_size=1, max_size=5))
    if not any(ws):
        ws[draw(st.integers(0, len(ws) - 1))] = 0.002
    return ws


class WeightedExhaustiveFacet(Facet):
    name = "choice_weighted_all_draws"

    def budget(self, tier):
        return (150, 1) if tier == "quick" else (600, 16)

    def strategy(self, tier):
        return st.one_of(
            grid_weights().map(lambda ws: {"weights": ws, "mode": "all"}),
            weight_vectors().map(lambda ws: {"weights": ws, "mode": "boundary"}),
        )

    def run(self, case, rec):
        ws = case["weights"]
        opts = list(range(len(ws)))
        probe = FixedSource.make(0)
        probe.choice_weighted(list(opts), list(ws))
        lo, hi = probe.asked
        rec.label("mode:" + case["mode"])
        rec.sample(case)
        if case["mode"] == "all":
            draws = range(lo, hi + 1)
        else:
            from itertools import accumulate

            accs = [int(x * 100000) for x in accumulate(ws)]
            pts = {lo, hi, hi - 1, lo + 1}
            for a in accs:
                pts |= {a - 1, a, a + 1}
            draws = sorted(p for p in pts if lo <= p <= hi)
        counts = Counter()
        for d in draws:
            v = FixedSource.make(d).choice_weighted(list(opts), list(ws))
            if v not in opts:
                rec.fail("C18/choice_weighted/not-a-member", f"weights {ws}, draw {d} -> {v!r}")
                continue
            counts[v] += 1
            if ws[v] == 0:
                rec.fail(
                    "C18/choice_weighted/zero-weight-option-on-some-draw",
                    f"weights {ws}: draw {d} of [{lo},{hi}] returns option {v} whose weight is 0",
                )
        if ws[0] == 0 and len(ws) >= 2:
            rec.nontrivial(("cw-all", tuple(ws)))
        if case["mode"] == "all":
            n = hi - lo + 1
            tot = sum(ws)
            for i, w in enumerate(ws):
                expect = n * w / tot
                if abs(counts[i] - expect) > 2.0 + 1e-6 * n:
                    rec.fail(
                        "C18/choice_weighted/not-proportional",
                        f"weights {ws}: option {i} selected by {counts[i]} of {n} draws, expected {expect:.1f} (+-2)",
                    )


# ---- deciders' bounded integer draw ------------------------------------------------------
class DeciderIntFacet(Facet):
    name = "decider_random_int"

    def budget(self, tier):
        return (300, 1) if tier == "quick" else (2000, 16)

    def strategy(self, tier):
        return st.builds(
            lambda b, kind, seed, genes: {"lo": b[0], "hi": b[1], "kind": kind, "seed": seed, "genes": genes},
            st.one_of(
                bounds(),
                bounds(),
                # huge widths whose half is a power of ten, or just below / above one
                st.builds(lambda lo, k, j: (lo, lo + 2 * 10**k - j), st.sampled_from([0, 0, 1, -5, -(10**15)]), st.integers(12, 18), st.integers(-3, 5)).filter(lambda b: b[1] <= MAXI),
                # intervals a little wider than 1000 that hug the platform integer limits or sit far from
                # zero (a midpoint or width computed through a float is off by hundreds there)
                st.builds(
                    lambda anchor, w, up: (anchor, anchor + w) if up else (anchor - w, anchor),
                    st.sampled_from([MAXI, -MAXI, 2**62 + 1, -(2**62) - 1, 2**60 + 7, 2**53 + 1, -(2**53) - 1]),
                    st.integers(1001, 6000),
                    st.booleans(),
                ).filter(lambda b: -MAXI <= b[0] and b[1] <= MAXI),
            ),
            st.sampled_from(["base-scripted", "base-scripted", "base-native", "dsge"]),
            st.integers(0, 2**32),
            st.lists(st.integers(0, 1024), min_size=0, max_size=5),
        )

    def run(self, case, rec):
        from geneticengine.random.sources import NativeRandomSource
        from geneticengine.representations.tree.initializations import MaxDepthDecider

        lo, hi, kind = case["lo"], case["hi"], case["kind"]
        rec.label("kind:" + kind, "width>1000" if hi - lo > 1000 else "width<=1000")
        rec.sample(case)
        g = _tiny_grammar()
        if hi - lo > 1000:
            rec.nontrivial((kind, lo, hi))
        if kind == "base-scripted":
            if hi - lo > 1000:
                def run(src):
                    return MaxDepthDecider(src, g, 3).random_int(lo, hi)

                paths, complete = enumerate_collect(run, 5000, max_width=64)
                rec.label("scripted-paths", )
                for trace, v, exc in paths:
                    if exc is not None:
                        rec.fail(f"C18/decider/base/raised-{type(exc).__name__}", f"random_int({lo},{hi}) raised {exc!r}")
                    elif type(v) is not int or not (lo <= v <= hi):
                        rec.fail(
                            "C18/decider/base/random_int-out-of-bounds",
                            f"BaseDecider.random_int({lo},{hi}) -> {v} on draws {[t[2] for t in trace]}",
                        )
            else:
                for pick in {lo, hi, (lo + hi) // 2}:
                    v = MaxDepthDecider(FixedSource.make(pick), g, 3).random_int(lo, hi)
                    if type(v) is not int or not (lo <= v <= hi):
                        rec.fail("C18/decider/base/random_int-out-of-bounds", f"random_int({lo},{hi}) -> {v}")
        elif kind == "base-native":
            d = MaxDepthDecider(NativeRandomSource(case["seed"]), g, 3)
            d2 = MaxDepthDecider(NativeRandomSource(case["seed"]), g, 3)
            for _ in range(20):
                v = d.random_int(lo, hi)
                v2 = d2.random_int(lo, hi)
                if type(v) is not int or not (lo <= v <= hi):
                    rec.fail("C18/decider/base/random_int-out-of-bounds", f"BaseDecider.random_int({lo},{hi}) -> {v} (seed {case['seed']})")
                if v != v2:
                    rec.fail("C18/decider/base/same-seed-different-stream", f"{v} vs {v2}")
        else:
            from geneticengine.representations.grammatical_evolution.dynamic_structured_ge import DynamicSGEDecider, Genotype

            gt = Genotype(NativeRandomSource(case["seed"]), {int: list(case["genes"])})
            d = DynamicSGEDecider(gt, g, 5)
            for _ in range(8):
                try:
                    v = d.random_int(lo, hi)
                except Exception as e:  # noqa: BLE001
                    clause = "equal-bounds" if lo == hi else "other"
                    rec.fail(f"C18/decider/dsge/raised-{type(e).__name__}/{clause}", f"DynamicSGEDecider.random_int({lo},{hi}) raised {e!r}")
                    break
                if type(v) is not int or not (lo <= v <= hi):
                    rec.fail("C18/decider/dsge/random_int-out-of-bounds", f"DynamicSGEDecider.random_int({lo},{hi}) -> {v}")


_G = None


def _tiny_grammar():
    global _G
    if _G is None:
        from vk.spec import materialise

        spec = {
            "abstracts": [{"name": "A0", "parent": None, "style": "ABC"}],
            "concretes": [{"name": "C0", "parent": "A0", "weight": None, "fields": [["f0", ["int"]]]}],
            "start": "A0",
            "expansion": False,
            "considered": ["A0", "C0"],
        }
        _G = materialise(spec).grammar()
    return _G


class DeciderIntAllWidths(Facet):
    """BaseDecider.random_int for EVERY width in a range above 1000 and EVERY decision path of a
    scripted source (the violating widths of an off-by-one are isolated points, e.g. 2*n**e - 1)."""

    name = "decider_random_int_all_widths"
    enumerative = True

    def budget(self, tier):
        return (0, 8) if tier == "quick" else (0, 16)

    def cases(self, tier, shard, nshards):
        top = 5200 if tier == "quick" else 40000
        for w in range(1001 + shard, top, nshards):
            yield {"width": w, "lo": [0, -1000, 17][w % 3]}

    def run(self, case, rec):
        from geneticengine.representations.tree.initializations import MaxDepthDecider

        lo = case["lo"]
        hi = lo + case["width"]
        g = _tiny_grammar()

        def run(src):
            return MaxDepthDecider(src, g, 3).random_int(lo, hi)

        paths, complete = enumerate_collect(run, 2000, max_width=64)
        if rec.stats.exhaustive is None:
            rec.stats.exhaustive = True
        rec.stats.exhaustive = rec.stats.exhaustive and complete
        rec.stats.labels["paths"] += len(paths)
        rec.sample(case, limit=3)
        if case["width"] % 2 == 1:
            rec.nontrivial(case["width"])
        for trace, v, exc in paths:
            if exc is not None:
                rec.fail(f"C18/decider/base/raised-{type(exc).__name__}", f"random_int({lo},{hi}) raised {exc!r}")
                return
            if type(v) is not int or not (lo <= v <= hi):
                rec.fail(
                    "C18/decider/base/random_int-out-of-bounds",
                    f"BaseDecider.random_int({lo},{hi}) (width {case['width']}) -> {v} on draws {[t[2] for t in trace]}",
                )
                return


FACETS = [SourcesFacet(), WeightedExhaustiveFacet(), DeciderIntFacet(), DeciderIntAllWidths()]
