"""C07 — genotype-to-phenotype mapping is a pure function of the genotype."""
from __future__ import annotations

from hypothesis import strategies as st

from vk.core import Facet
from vk.refmodel import canon, canon_nodes, canon_str
from vk.sources import RecordingSource
from vk.spec import Flags, spec_forms, spec_str
from vk.world import World, is_library_error, ops_strategy, world_cases

LEVEL = "exploration"
RULE = (
    "Hypothesis draws a grammar (with and without refined fields), one of GE/SGE/dSGE/stack, a decider, a seed, a gene length "
    "and an interleaving of create/mutate/crossover/map/burn operations (burn = other users drawing from the shared source). "
    "Every genotype in the pool is re-mapped after every operation, and once more by a second representation instance whose "
    "shared source has a different seed; the canonical program must equal that of the genotype's first completed mapping and "
    "the shared RecordingSource must log zero calls during a mapping (dSGE: calls are allowed only while the genotype grows, "
    "at most one per appended gene). Non-trivial = a mapping of a program with >= 2 nodes that is repeated after a burn or by "
    "the second instance; distinct by (representation, canonical program, genes hash)."
)
ASSUMPTIONS = [
    "structural identity = equal canonical form (class names, field values, list/tuple structure)",
    "mappings that raise a library error (stack genome not enough, depth) are discarded, but must raise again the same way",
    "dSGE's first mapping may extend the genotype; purity is required from the first completed mapping on",
]


def _genes_size(rep, g):
    if rep in ("ge", "stack"):
        return len(g.dna)
    return sum(len(v) for v in g.dna.values())


class MappingPurity(Facet):
    name = "mapping_purity"
    reps = ("ge", "sge", "dsge", "stack")
    flags = Flags(dependent=False, user_mh=False, max_concrete=6, concrete_start=True, weighted_string=True, interval_range=True)

    def budget(self, tier):
        return (60, 8) if tier == "quick" else (400, 16)

    def strategy(self, tier):
        return world_cases(self.flags, reps=self.reps, deciders=("maxdepth", "pigrow", "full", "progressive"), max_ops=8, depth_extras=(1, 2, 3), with_burn=True)

    def run(self, case, rec):
        w = World(case)
        try:
            self._run(case, rec, w)
        finally:
            w.cleanup()

    def _run(self, case, rec, w):
        rep = case["rep"]
        if not w.productive():
            rec.discard()
            return
        try:
            w.build()
        except Exception:  # noqa: BLE001
            rec.discard()
            return
        info = w.info
        forms = spec_forms(case["spec"])
        refined = any(f.startswith("ann:") for f in forms)
        rec.label("rep:" + rep, "refined-fields" if refined else "no-refined-fields")
        other_src = RecordingSource(case["seed"] + 7919)
        try:
            other = w.make_rep(w.make_decider(other_src))
        except Exception:  # noqa: BLE001
            other = None
        first: dict[int, tuple] = {}
        kindtag = rep + ("/refined" if refined else "/plain")

        def map_once(i, r, tag):
            """Maps pool[i] with representation r; returns canon or ('ERR', type)."""
            g = w.pool[i]
            src = w.random
            n0 = src.calls()
            s0 = src.getstate()
            size0 = _genes_size(rep, g)
            try:
                p = r.genotype_to_phenotype(g)
                c = canon(p, info)
            except Exception as e:  # noqa: BLE001
                if not is_library_error(e):
                    rec.discard()
                    return None
                c = ("ERR", type(e).__name__)
            drew = src.calls() - n0
            grew = _genes_size(rep, g) - size0
            allowed = grew if rep == "dsge" else 0
            if drew > allowed or (drew == 0 and src.getstate() != s0):
                rec.fail(
                    f"C07/draws-from-shared-source/{kindtag}",
                    f"{tag}: mapping a {rep} genotype made {drew} draw(s) from the search's shared random source (genotype grew by {grew} genes); first calls {src.log[n0:n0 + 3]}; grammar {spec_str(case['spec'])}",
                )
            return c

        def check_all(after):
            for i in range(len(w.pool)):
                c = map_once(i, w.rep, f"after {after}")
                if c is None:
                    continue
                if i not in first:
                    first[i] = c
                    continue
                if c != first[i]:
                    rec.fail(
                        f"C07/remap-differs/{kindtag}",
                        f"after {after}: genotype #{i} ({rep}) first mapped to {_cs(first[i])}, now maps to {_cs(c)}; grammar {spec_str(case['spec'])}",
                    )
                if isinstance(c, tuple) and c[0] != "ERR" and canon_nodes(c) >= 2:
                    rec.nontrivial((rep, c, i))
                if other is not None and rep != "dsge":
                    try:
                        c2 = canon(other.genotype_to_phenotype(w.pool[i]), info)
                    except Exception as e:  # noqa: BLE001
                        c2 = ("ERR", type(e).__name__) if is_library_error(e) else None
                    if c2 is not None and c2 != first[i]:
                        rec.fail(
                            f"C07/other-instance-differs/{kindtag}",
                            f"genotype #{i} ({rep}) maps to {_cs(first[i])} but a second representation instance (same grammar, other shared seed) maps it to {_cs(c2)}; grammar {spec_str(case['spec'])}",
                        )

        def obs(ev, w):
            if ev.exc is not None:
                rec.discard()
            rec.label(f"op:{ev.kind}")
            check_all(ev.op)

        rec.sample({"spec": spec_str(case["spec"]), "rep": rep, "decider": case["decider"], "ops": case["ops"]})
        w.run(obs)


def _cs(c):
    if isinstance(c, tuple) and c and c[0] == "ERR":
        return f"<{c[1]}>"
    return canon_str(c)


class MappingPurityDependent(MappingPurity):
    """Grammars with dependent refinements, including contexts in which a production cannot be
    completed (the creation then backtracks to another production): the retry must leave no trace
    that a later mapping could see."""

    name = "mapping_purity_dependent_and_infeasible"
    flags = Flags(dependent=True, infeasible=True, user_mh=True, max_concrete=6, concrete_start=True, weighted_string=True)

    def budget(self, tier):
        return (60, 4) if tier == "quick" else (300, 8)


class MappingPurityPlainDsge(MappingPurity):
    """dSGE on grammars without refined fields and bare ints/floats (the confirmed dSGE
    finding - metahandlers draw from the shared stream - is excluded by construction)."""

    name = "mapping_purity_dsge_unrefined"
    reps = ("dsge",)
    flags = Flags(dependent=False, user_mh=False, refined=False, lists=False, max_concrete=6)

    def budget(self, tier):
        return (60, 3) if tier == "quick" else (300, 8)


class MappingPurityStack(MappingPurity):
    name = "mapping_purity_stack"
    reps = ("stack",)

    def budget(self, tier):
        return (60, 3) if tier == "quick" else (300, 8)


class DeciderSharedWithTree(MappingPurity):
    """GE / SGE with a decider object that a tree representation uses directly between the
    mappings (op "direct"), mostly on grammars whose starting symbol is a production: whatever a
    decider remembers from its last direct use must not reach the mapping of a genotype."""

    name = "decider_shared_with_tree_representation"
    reps = ("ge", "sge")
    flags = Flags(dependent=False, user_mh=False, max_concrete=6, min_extra_concrete=1, concrete_start="always", refined=False)

    def budget(self, tier):
        return (60, 4) if tier == "quick" else (300, 8)

    def strategy(self, tier):
        base = world_cases(self.flags, reps=self.reps, deciders=("pigrow", "pigrow", "full", "maxdepth", "progressive"), max_ops=3, depth_extras=(1, 2, 3, 4), with_burn=True)
        extra = st.lists(st.sampled_from([["direct"], ["direct"], ["map", 0], ["create"], ["burn", 2]]), min_size=2, max_size=8)
        return st.builds(lambda c, e: {**c, "ops": c["ops"] + e}, base, extra)


FACETS = [MappingPurity(), MappingPurityDependent(), MappingPurityPlainDsge(), MappingPurityStack(), DeciderSharedWithTree()]
