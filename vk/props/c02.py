"""C02 — refinements (metahandlers) hold on every value the library produces."""
from __future__ import annotations

from hypothesis import strategies as st

from vk.core import Facet
from vk.refmodel import canon, canon_str, check_refinements, refined_ok, well_typed
from vk.sources import Unbounded, enumerate_collect
from vk.spec import Flags, build_refinement, spec_forms, spec_str
from vk.world import World, is_library_error, world_cases

LEVEL = "exploration"
RULE = (
    "Facet A: Hypothesis draws parameters for every shipped metahandler (bounds incl. min==max, ListSizeBetween(0,0), "
    "one-letter alphabets, IntervalRange with maxlen=minlen+1 and top=maxlen+1) and a source (native seed, GE/stack/SGE "
    "gene-backed, or ALL decision paths of a scripted source when the tree has <= 20000 leaves); each generated value must "
    "satisfy the documented predicate and be accepted by the metahandler's own validate(). Facet B: generated grammars with "
    "refined fields at top level, inside lists, unions, tuples and under Dependent refinements, all representations, "
    "create/map/mutate/crossover/search sequences; every refined field of every produced program is judged against the "
    "predicate evaluated on the ACTUAL sibling values. Non-trivial = a value on a boundary of its refinement (A) / a program "
    "with a refined field inside a list/union or a dependent field (B); distinct by (refinement, value) / canonical program."
)
ASSUMPTIONS = [
    "validate() is only required to accept float values that lie inside the exact bounds (1-ulp excursions of gene-backed sources are not reported)",
    "gene lists non-empty with values in 0..sys.maxsize",
    "WeightedStringHandler judged on the stated predicate only (length = rows, letters from the alphabet)",
]

MAXI = 2**63 - 1


# ---- facet A: metahandler level ---------------------------------------------------------
@st.composite
def mh_params(draw):
    k = draw(
        st.sampled_from(
            ["IntRange", "IntList", "FloatRange", "FloatList", "VarRange", "ListSizeBetween", "LSBWLO", "StringSizeBetween", "WeightedString", "IntervalRange"],
        ),
    )
    if k == "IntRange":
        a = draw(st.integers(-50, 50))
        return ["IntRange", a, a + draw(st.sampled_from([0, 0, 1, 2, 5, 30, 2000]))]
    if k == "IntList":
        return ["IntList", draw(st.lists(st.integers(-9, 9), min_size=1, max_size=5))]
    if k == "FloatRange":
        if draw(st.integers(0, 3)) == 0:
            a = draw(st.integers(-5, 9))  # int-literal bounds, as in geml.grammars.sgp
            return ["FloatRange", a, a + draw(st.integers(0, 9))]
        a = draw(st.sampled_from([-100.0, -1.5, -0.3, 0.0, 0.1, 9.0]))
        return ["FloatRange", a, a + draw(st.sampled_from([0.0, 0.4, 1.0, 1e3]))]
    if k == "FloatList":
        return ["FloatList", draw(st.lists(st.sampled_from([-1.0, 0.0, 0.5, 2.5, 1e9]), min_size=1, max_size=4))]
    if k == "VarRange":
        # options are usually names, but any values are accepted (geml passes class labels, i.e. ints)
        pool = draw(st.sampled_from([["x", "y", "z", "w"], ["x", "y", "z", "w"], [0, 1, 2, 7], [0.5, 2.0, -1.0], [True, False], ["1", 1, 1.5], ["", "a"]]))
        return ["VarRange", draw(st.lists(st.sampled_from(pool), min_size=1, max_size=4))]
    if k in ("ListSizeBetween", "LSBWLO"):
        a = draw(st.integers(0, 4))
        return [k, a, a + draw(st.integers(0, 4))]
    if k == "StringSizeBetween":
        a = draw(st.integers(0, 4))
        return ["StringSizeBetween", a, a + draw(st.integers(0, 3)), draw(st.sampled_from(["a", "ab", "xyz", "0123456789"]))]
    if k == "WeightedString":
        alpha = draw(st.sampled_from(["a", "ab", "ACGT"]))
        rows = draw(st.integers(1, 4))
        m = []
        for _ in range(rows):
            # (also weights below the chooser's resolution of 1e-5: positive mass, a legal distribution)
            row = [draw(st.sampled_from([0.0, 0.1, 0.25, 0.5, 1.0, 1e-6, 3e-7])) for _ in alpha]
            if sum(row) == 0:
                row[draw(st.integers(0, len(alpha) - 1))] = 0.5
            m.append(row)
        return ["WeightedString", m, list(alpha)]
    mn = draw(st.integers(0, 5))
    mx = mn + draw(st.sampled_from([1, 1, 2, 5]))
    top = mx + draw(st.sampled_from([1, 1, 2, 10]))
    return ["IntervalRange", mn, mx, top]


def _base_type_for(r):
    k = r[0]
    if k in ("ListSizeBetween", "LSBWLO"):
        return list[int]
    if k in ("IntRange", "IntList"):
        return int
    if k in ("FloatRange", "FloatList"):
        return float
    if k == "IntervalRange":
        return tuple[int, int]
    return str


def on_boundary(v, r):
    k = r[0]
    try:
        if k in ("IntRange", "FloatRange"):
            return v in (r[1], r[2])
        if k in ("ListSizeBetween", "LSBWLO", "StringSizeBetween"):
            return len(v) in (r[1], r[2])
        if k == "IntervalRange":
            return (v[1] - v[0]) in (r[1], r[2]) or v[1] == r[3] or v[0] == 0
        if k in ("IntList", "FloatList", "VarRange"):
            return v == r[1][0] or v == r[1][-1]
        if k == "WeightedString":
            return True
    except Exception:  # noqa: BLE001
        return False
    return False


class MetahandlerLevel(Facet):
    name = "metahandler_generate_validate"

    def budget(self, tier):
        return (150, 4) if tier == "quick" else (1500, 16)

    def strategy(self, tier):
        src = st.one_of(
            st.builds(lambda s: ["native", s], st.integers(0, 2**32)),
            st.builds(
                lambda k, g: [k, g],
                st.sampled_from(["ge", "stack", "sge"]),
                st.lists(st.one_of(st.integers(0, 12), st.integers(0, MAXI), st.sampled_from([0, 1, MAXI])), min_size=1, max_size=16),
            ),
            st.just(["scripted"]),
        )
        return st.builds(lambda r, s: {"refinement": r, "source": s}, mh_params(), src)

    def run(self, case, rec):
        from vk.props.c18 import make_source

        r = case["refinement"]
        mh = build_refinement(r)
        bt = _base_type_for(r)
        rec.label("mh:" + r[0], "source:" + case["source"][0])
        rec.sample(case)
        limit = 20000

        def gen(src):
            return mh.generate(src, None, bt, lambda t: 0, {})

        def judge(v, how):
            ok, clause = refined_ok(v, r, {})
            if not ok:
                rec.fail(f"C02/generate/{clause}/predicate-violated", f"{r} generated {v!r} ({how}), outside the documented predicate")
                return
            try:
                acc = mh.validate(v)
            except Exception as e:  # noqa: BLE001
                rec.fail(f"C02/validate/{r[0]}/raised-{type(e).__name__}", f"{r}.validate({v!r}) raised {e!r}")
                return
            if r[0] == "FloatRange" and not (r[1] <= v <= r[2]):
                return  # inside tolerance but outside exact bounds: not judged
            if acc is not True and not acc:
                rec.fail(f"C02/validate/{r[0]}/rejects-generated-value", f"{r}.validate({v!r}) is {acc!r} for a value its own generator produced ({how})")
            if on_boundary(v, r):
                rec.nontrivial((r, repr(v)))

        if case["source"][0] == "scripted":
            try:
                paths, complete = enumerate_collect(gen, limit, max_width=2100)
            except Unbounded:
                rec.discard()
                return
            rec.label("scripted-complete" if complete else "scripted-truncated")
            for trace, v, exc in paths:
                if exc is not None:
                    rec.fail(f"C02/generate/{r[0]}/raised-{type(exc).__name__}", f"{r}.generate raised {exc!r} on draws {[t[2] for t in trace]}")
                    continue
                judge(v, f"draws {[t[2] for t in trace][:12]}")
        else:
            src = make_source(case["source"])
            for i in range(12):
                try:
                    v = gen(src)
                except Exception as e:  # noqa: BLE001
                    rec.fail(f"C02/generate/{r[0]}/raised-{type(e).__name__}", f"{r}.generate raised {e!r} with source {case['source']}")
                    break
                judge(v, f"source {case['source'][0]} call {i}")


# ---- facet B: in-program ----------------------------------------------------------------
class InProgram(Facet):
    name = "refinements_in_programs"
    flags = Flags(dependent=True, infeasible=True, weighted_string=True, interval_range=True, tuples=True)
    reps = ("tree", "ge", "sge", "dsge")

    def budget(self, tier):
        return (250, 8) if tier == "quick" else (700, 16)

    def strategy(self, tier):
        return world_cases(self.flags, reps=self.reps, max_ops=10, with_search=True, deciders=("maxdepth", "full", "pigrow"))

    def run(self, case, rec):
        w = World(case)
        try:
            self._run(case, rec, w)
        finally:
            w.cleanup()

    def _run(self, case, rec, w):
        rep = case["rep"]
        if not w.productive():
            rec.discard()
            return
        try:
            w.build()
        except Exception:  # noqa: BLE001 - C01/C03 territory
            rec.discard()
            return
        info = w.info
        start_t = ["ref", info.start]
        forms = spec_forms(case["spec"])
        has_ref = any(f.startswith("ann:") for f in forms)
        rec.label("rep:" + rep, "has-refinement" if has_ref else "no-refinement")
        repclass = "stack" if rep == "stack" else "treegen"

        def judge(p, how):
            if well_typed(p, start_t, info):
                rec.discard()  # ill-typed programs are C01's business
                return
            bad = check_refinements(p, start_t, info)
            c = canon(p, info)
            for path, clause, detail in bad[:3]:
                if repclass == "stack":
                    b = "C02/inprog/stack/refined-field-filled-without-validation"
                else:
                    b = f"C02/inprog/{clause}/{repclass}/{how if how in ('mutate', 'crossover') else 'create'}"
                rec.fail(
                    b,
                    f"{how} ({rep}, decider {case['decider']}): at {path}: {detail}; program {canon_str(c)}; grammar {spec_str(case['spec'])}",
                )
            if has_ref:
                rec.label(f"judged:{how}@{rep}")
                if any(f.startswith("ann:Dependent") for f in forms) or "list" in forms or "union" in forms:
                    rec.nontrivial((rep, c))

        def obs(ev, w):
            if ev.exc is not None:
                rec.discard()
                return
            for i in ev.outputs:
                try:
                    p = w.phenotype(i)
                except Exception:  # noqa: BLE001
                    rec.discard()
                    continue
                judge(p, ev.kind)
            if ev.kind == "map":
                judge(ev.extra["phenotype"], "map")
            if ev.kind == "search":
                for p in ev.extra["evaluated"]:
                    judge(p, "fitness-arg")

        rec.sample({"spec": spec_str(case["spec"]), "rep": rep, "ops": case["ops"]})
        w.run(obs)


class InProgramStack(InProgram):
    name = "refinements_in_programs_stack"
    reps = ("stack",)
    flags = Flags(dependent=False, weighted_string=True, interval_range=True, tuples=True)

    def budget(self, tier):
        return (60, 2) if tier == "quick" else (300, 6)


class RedeclaredRefinement(InProgram):
    """Programs of a first grammar are produced, then the refinement of one int/float/str field is
    re-declared the documented way (Prod.__init__.__annotations__[f] = Annotated[T, R2]) on the same
    class objects, a new grammar is extracted and every program produced from it must satisfy the
    NEW refinement (anything remembered per production class from the first use would show)."""

    name = "redeclared_refinement"
    flags = Flags(dependent=False, weighted_string=True, interval_range=True, tuples=True)

    def budget(self, tier):
        return (60, 4) if tier == "quick" else (300, 16)

    def strategy(self, tier):
        return st.builds(
            lambda case, ci, fi, k: {**case, "ci": ci, "fi": fi, "k": k},
            world_cases(self.flags, reps=self.reps, max_ops=6, deciders=("maxdepth", "full", "pigrow")),
            st.integers(0, 20),
            st.integers(0, 5),
            st.integers(0, 3),
        )

    def run(self, case, rec):
        from vk.spec import redeclare

        try:
            w1 = World(case)
        except Exception:  # noqa: BLE001
            rec.discard()
            return
        try:
            if not w1.productive():
                rec.discard()
                return
            try:
                w1.build()
                w1.run(lambda ev, w: [w.phenotype(i) for i in ev.outputs] if ev.exc is None else None)
            except Exception:  # noqa: BLE001
                pass

            def base(t):
                return t[1][0] if t[0] == "ann" else t[0]

            cands = [(c, fn, ft) for c in case["spec"]["concretes"] for fn, ft in c["fields"] if base(ft) in ("int", "float", "str")]
            if not cands:
                rec.discard()
                return
            c, fn, old_t = cands[(case["ci"] * 7 + case["fi"]) % len(cands)]
            k = case["k"]
            new_r = {
                "int": [["IntRange", 100, 103], ["IntRange", -7, -7], ["IntList", [41, 43]], ["IntRange", 1000, 1001]],
                "float": [["FloatRange", 10.0, 11.0], ["FloatRange", -3.5, -3.5], ["FloatList", [0.25, 8.5]], ["FloatRange", 100.0, 100.5]],
                "str": [["VarRange", ["alpha", "beta"]], ["VarRange", ["gamma"]], ["VarRange", ["p", "q", "r"]], ["VarRange", ["zz"]]],
            }[base(old_t)][k]
            nt = ["ann", [base(old_t)], new_r]
            if nt == old_t:
                rec.discard()
                return
            spec2 = redeclare(w1.mat, c["name"], fn, nt)
            case2 = {**case, "spec": spec2}
            try:
                w2 = World(case2, mat=w1.mat)
            except Exception:  # noqa: BLE001
                rec.discard()
                return
            rec.label("redeclared:" + base(old_t), "was-refined" if old_t[0] == "ann" else "was-plain")
            self._run(case2, rec, w2)
        finally:
            w1.cleanup()


FACETS = [MetahandlerLevel(), InProgram(), InProgramStack(), RedeclaredRefinement()]
