"""C19 — production weights are normalised per non-terminal, stable and respected."""
from __future__ import annotations

from hypothesis import strategies as st

from vk.core import Facet
from vk.refmodel import SpecInfo
from vk.spec import Flags, materialise, spec_str, specs
from vk.world import exc_bucket

LEVEL = "exploration"
RULE = (
    "Hypothesis draws class hierarchies with any subset of productions weighted (ints and floats, zeros allowed while every rule "
    "keeps one positive declared weight), nested abstract types, unreachable classes, and 1-4 repeated extract_grammar calls on "
    "the same classes. Oracle: after every extraction the weights of the productions of each abstract type are >= 0, sum to 1 "
    "(1e-9) and keep the declared pairwise ratios (unweighted = 1); a further extraction changes no weight by more than 1e-12. "
    "Choosers: RandomSource.choice_weighted over the rule's weights, ProgressivelyTerminalDecider.choose_production_alternatives "
    "and the stack mapping's symbol choice are driven by ALL boundary draws / a spy source: a production with declared weight 0 "
    "is never returned while a production with positive declared and positive effective weight is available. The shipped "
    "weighted grammar (geml symbolic_regression) is included. Non-trivial = a rule with >= 3 productions, one of weight 0 in "
    "first position; distinct by spec hash."
)
ASSUMPTIONS = [
    "rules whose declared weights are all zero are excluded (normalisation is undefined)",
    "declared weight of an unweighted production is 1",
]


def declared(info: SpecInfo, n):
    w = info.weight.get(n)
    return 1.0 if w is None else float(w)


class Normalisation(Facet):
    name = "normalisation_and_stability"
    flags = Flags(weights=True, zero_weights=True, dependent=False, user_mh=False, max_abstract=4, max_concrete=7, concrete_start=True)

    def budget(self, tier):
        return (150, 4) if tier == "quick" else (2000, 16)

    def strategy(self, tier):
        return st.builds(lambda s, n: {"spec": s, "extractions": n}, specs(self.flags), st.integers(1, 4))

    def run(self, case, rec):
        spec = case["spec"]
        mat = materialise(spec)
        try:
            info = SpecInfo(spec, mat.classes)
            # "a grammar extracted from classes carrying production weights": a weighted class that is
            # neither handed to extract_grammar nor part of the resulting grammar carries no obligation
            relevant = set(spec["considered"]) | info.registered()
            any_weight = any(c.get("weight") is not None and c["name"] in relevant for c in spec["concretes"] + spec["abstracts"])
            rec.label("weighted" if any_weight else "unweighted", f"extractions={case['extractions']}")
            prev = None
            for it in range(case["extractions"]):
                try:
                    g = mat.grammar()
                except Exception as e:  # noqa: BLE001
                    rec.fail(f"C19/extract/raised/{exc_bucket(e)}", f"extraction #{it + 1} raised {e!r}; {spec_str(spec)}")
                    return
                ws = {mat.names[k]: v for k, v in g.get_weights().items() if k in mat.names}
                if not any_weight:
                    prev = ws
                    continue
                for a in info.abstract_names:
                    if a not in info.registered():
                        continue
                    prods = info.direct_productions(a)
                    if not prods:
                        continue
                    vals = [ws[p] for p in prods]
                    if any(v < 0 for v in vals):
                        rec.fail("C19/negative-weight", f"rule {a}: weights {dict(zip(prods, vals))}; {spec_str(spec)}")
                        return
                    if abs(sum(vals) - 1.0) > 1e-9:
                        rec.fail(
                            f"C19/not-normalised/extraction-{'first' if it == 0 else 'repeated'}",
                            f"rule {a}: weights {dict(zip(prods, vals))} sum to {sum(vals)} after extraction #{it + 1}; {spec_str(spec)}",
                        )
                        return
                    d = [declared(info, p) for p in prods]
                    tot = sum(d)
                    for p, v, dv in zip(prods, vals, d):
                        if abs(v - dv / tot) > 1e-9 * max(1.0, dv / tot):
                            rec.fail(
                                f"C19/ratio-not-kept/extraction-{'first' if it == 0 else 'repeated'}",
                                f"rule {a}: production {p} has weight {v}, declared ratios {dict(zip(prods, d))} give {dv / tot} (extraction #{it + 1}); {spec_str(spec)}",
                            )
                            return
                if prev is not None:
                    for k in ws:
                        if k in prev and abs(ws[k] - prev[k]) > 1e-12 and k in info.concrete_names + info.abstract_names and info.parent.get(k):
                            rec.fail("C19/extraction-not-idempotent", f"weight of {k} changed from {prev[k]} to {ws[k]} on extraction #{it + 1}; {spec_str(spec)}")
                            return
                prev = ws
            rec.sample({"spec": spec_str(spec), "extractions": case["extractions"]}, limit=3)
            for a in info.abstract_names:
                prods = info.direct_productions(a)
                if len(prods) >= 3 and info.weight.get(prods[0]) == 0:
                    rec.nontrivial(spec)
        finally:
            mat.cleanup()


class Choosers(Facet):
    name = "weight_aware_choosers"
    flags = Flags(weights=True, zero_weights=True, dependent=False, user_mh=False, refined=False, lists=False, max_abstract=3, max_concrete=7, min_extra_concrete=2, unreachable=False)

    def budget(self, tier):
        return (100, 4) if tier == "quick" else (800, 16)

    def strategy(self, tier):
        return st.builds(lambda s, seed, d: {"spec": s, "seed": seed, "depth": d}, specs(self.flags), st.integers(0, 2**31), st.integers(0, 6))

    def run(self, case, rec):
        from itertools import accumulate

        from geneticengine.representations.stackgggp import ListWrapper, create_tree_using_stacks
        from geneticengine.representations.tree.initializations import ProgressivelyTerminalDecider
        from geneticengine.solutions.tree import LocalSynthesisContext
        from vk.props.c18 import FixedSource

        spec = case["spec"]
        mat = materialise(spec)
        try:
            info = SpecInfo(spec, mat.classes)
            try:
                g = mat.grammar()
            except Exception:  # noqa: BLE001
                rec.discard()
                return
            if g.get_min_tree_depth() >= 1000000:
                rec.discard()
                return
            rec.sample({"spec": spec_str(spec)}, limit=3)
            weights = g.get_weights()
            for a in info.abstract_names:
                if a not in info.registered():
                    continue
                prods = info.direct_productions(a)
                zero = [p for p in prods if info.weight.get(p) == 0]
                pos = [p for p in prods if declared(info, p) > 0]
                if not zero or not pos:
                    continue
                if len(prods) >= 3 and info.weight.get(prods[0]) == 0:
                    rec.nontrivial((spec, a))
                rec.label("rule-with-zero-weight")
                alts = list(g.alternatives[mat.classes[a]])
                ws = [weights[x] for x in alts]
                # (1) RandomSource.choice_weighted, boundary draws
                accs = [int(x * 100000) for x in accumulate(ws)]
                pts = {0, 1, accs[-1], accs[-1] - 1}
                for acc in accs:
                    pts |= {acc - 1, acc, acc + 1}
                for d in sorted(p for p in pts if p >= 0):
                    r = FixedSource.make(d).choice_weighted(list(alts), list(ws))
                    if mat.names[r] in zero:
                        rec.fail(
                            "C19/chooser/choice_weighted-returns-zero-weight-production",
                            f"rule {a}: choice_weighted over weights {dict((mat.names[x], w) for x, w in zip(alts, ws))} returns {mat.names[r]} (declared weight 0) on draw {d}; {spec_str(spec)}",
                        )
                        return
                # (2) ProgressivelyTerminalDecider
                ctx = LocalSynthesisContext(case["depth"], 0, 0, {})
                probe = FixedSource.make(0)
                dec = ProgressivelyTerminalDecider(probe, g)
                try:
                    dec.choose_production_alternatives(mat.classes[a], list(alts), ctx)
                except Exception:  # noqa: BLE001
                    continue
                lo, hi = probe.asked
                target = g.get_max_node_depth()

                def eff(n):
                    base = target // (ctx.depth + 1) if n in g.recursive_prods else target - g.get_distance_to_terminal(n)
                    return base * weights[n]

                if not any(eff(x) > 0 for x in alts):
                    # every depth factor of the decider is zero here: the grammar's weights are all
                    # that is left to go by, and a positive-weight production IS available
                    rec.label("progressive:all-depth-factors-zero")
                    for d in sorted({lo, hi, (lo + hi) // 2}):
                        r = ProgressivelyTerminalDecider(FixedSource.make(d), g).choose_production_alternatives(mat.classes[a], list(alts), ctx)
                        if mat.names[r] in zero:
                            rec.fail(
                                "C19/chooser/progressive-decider-returns-zero-weight-production/all-depth-factors-zero",
                                f"rule {a} at depth {ctx.depth}: every depth factor of ProgressivelyTerminalDecider is 0, it returns {mat.names[r]} (declared weight 0) although {[p for p in pos]} have positive weight (grammar weights {dict((mat.names[x], weights[x]) for x in alts)}); {spec_str(spec)}",
                            )
                            return
                if any(eff(x) > 0 for x in alts):
                    effs = [eff(x) for x in alts]
                    accs = [int(x * 100000) for x in accumulate(effs)]
                    pts = {lo, hi, hi - 1, lo + 1}
                    for acc in accs:
                        pts |= {acc - 1, acc, acc + 1}
                    for d in sorted(p for p in pts if lo <= p <= hi):
                        r = ProgressivelyTerminalDecider(FixedSource.make(d), g).choose_production_alternatives(mat.classes[a], list(alts), ctx)
                        if mat.names[r] in zero:
                            rec.fail(
                                "C19/chooser/progressive-decider-returns-zero-weight-production",
                                f"rule {a} at depth {ctx.depth}: ProgressivelyTerminalDecider returns {mat.names[r]} (declared weight 0) on draw {d} of [{lo},{hi}] although a positive effective weight exists ({dict((mat.names[x], e) for x, e in zip(alts, effs))}); {spec_str(spec)}",
                            )
                            return
            # (3) stack mapping's symbol choice, observed through a spy source
            zero_classes = {mat.classes[c["name"]] for c in spec["concretes"] if c.get("weight") == 0 and c["parent"]}
            if zero_classes:
                import random as _r

                class Spy(ListWrapper):
                    chosen: list = []

                    def choice_weighted(self, choices, weights):
                        v = super().choice_weighted(choices, weights)
                        Spy.chosen.append((v, dict(zip(choices, weights))))
                        return v

                Spy.chosen = []
                rng = _r.Random(case["seed"])
                dna = [rng.randrange(0, 2**62) for _ in range(256)]
                try:
                    create_tree_using_stacks(g, Spy(dna), failures_limit=30)
                except Exception:  # noqa: BLE001
                    pass
                rec.label("stack-symbol-choices-observed")
                for v, wmap in Spy.chosen:
                    if v in zero_classes and any(w > 0 for w in wmap.values()):
                        rec.fail(
                            "C19/chooser/stack-symbol-choice-returns-zero-weight-production",
                            f"stack mapping chose symbol {mat.names.get(v, v)} whose declared weight is 0; {spec_str(spec)}",
                        )
                        return
        finally:
            mat.cleanup()


class MultipleInheritance(Facet):
    """Hierarchies in which a production (or a nested abstract type) inherits from TWO abstract types of
    the grammar, e.g. `class Var(Num, Cond)`. Whatever rules the library lists such a class under, the
    weights of the productions it lists for each abstract type must be non-negative, sum to one, keep
    the declared ratios, and stay the same when the grammar is extracted again. The classes are written
    out by hand from generated parameters (the GrammarSpec family is single-inheritance)."""

    name = "multiple_inheritance_hierarchies"

    def budget(self, tier):
        return (60, 2) if tier == "quick" else (600, 8)

    def strategy(self, tier):
        wt = st.one_of(st.none(), st.integers(1, 5), st.sampled_from([0.5, 2.0, 0.25]))
        return st.builds(
            lambda ws, order, nested, n: {"weights": ws, "second_base_first": order, "nested_abstract": nested, "extractions": n},
            st.lists(wt, min_size=5, max_size=5),
            st.booleans(),
            st.booleans(),
            st.integers(1, 3),
        )

    def run(self, case, rec):
        import types

        from geneticengine.grammar.grammar import extract_grammar

        ws = case["weights"]
        if all(w is None for w in ws):
            rec.discard()
            return

        def deco(w):
            return f"@weight({w!r})\n" if w is not None else ""

        bases = "Cond, Num" if case["second_base_first"] else "Num, Cond"
        src = (
            "from abc import ABC\nfrom dataclasses import dataclass\nfrom geneticengine.grammar.decorators import weight\n"
            "class Top(ABC):\n    pass\nclass Num(ABC):\n    pass\nclass Cond(ABC):\n    pass\n"
            + deco(ws[0]) + "@dataclass\nclass Lit(Num):\n    v: int\n"
            + deco(ws[1]) + f"@dataclass\nclass Var({bases}):\n    name: str\n"
            + deco(ws[2]) + "@dataclass\nclass Not(Cond):\n    c: Cond\n"
            + deco(ws[3]) + "@dataclass\nclass Neg(Num):\n    e: Num\n"
            + deco(ws[4]) + "@dataclass\nclass Pair(Top):\n    a: Num\n    b: Cond\n"
        )
        if case["nested_abstract"]:
            src += "class Both(Num, Cond):\n    pass\n@dataclass\nclass Leaf(Both):\n    pass\n"
        mod = types.ModuleType("vk_c19_mi")
        import sys

        sys.modules[mod.__name__] = mod
        try:
            exec(compile(src, "<vk_c19_mi>", "exec"), mod.__dict__)  # noqa: S102 - generated class definitions
            names = ["Top", "Num", "Cond", "Lit", "Var", "Not", "Neg", "Pair"] + (["Both", "Leaf"] if case["nested_abstract"] else [])
            classes = [getattr(mod, n) for n in names]
            decl = {"Lit": ws[0], "Var": ws[1], "Not": ws[2], "Neg": ws[3], "Pair": ws[4]}
            rec.label("bases:" + bases, "nested-abstract" if case["nested_abstract"] else "flat")
            rec.sample(case, limit=2)
            prev = None
            for it in range(case["extractions"]):
                try:
                    g = extract_grammar(classes, mod.Top)
                except Exception as e:  # noqa: BLE001
                    rec.discard()
                    rec.label("discarded:" + type(e).__name__)
                    return
                wts = g.get_weights()
                cur = {}
                for a, prods in g.alternatives.items():
                    vals = [wts.get(p, 1) for p in prods]
                    pn = [p.__name__ for p in prods]
                    cur[a.__name__] = dict(zip(pn, vals))
                    if any(v < 0 for v in vals):
                        rec.fail("C19/multiple-inheritance/negative-weight", f"rule {a.__name__}: {dict(zip(pn, vals))}; classes:\n{src}")
                        return
                    if abs(sum(vals) - 1.0) > 1e-9:
                        rec.fail(
                            "C19/multiple-inheritance/not-normalised",
                            f"rule {a.__name__}: weights {dict(zip(pn, vals))} sum to {sum(vals)} after extraction #{it + 1} (Var inherits from {bases}); declared {decl}",
                        )
                        return
                    d = [1.0 if decl.get(n) is None else float(decl[n]) for n in pn]
                    for n_, v, dv in zip(pn, vals, d):
                        if abs(v - dv / sum(d)) > 1e-9:
                            rec.fail(
                                "C19/multiple-inheritance/ratio-not-kept",
                                f"rule {a.__name__}: production {n_} has weight {v}, declared ratios {dict(zip(pn, d))} give {dv / sum(d)} (extraction #{it + 1}; Var inherits from {bases})",
                            )
                            return
                if prev is not None and (set(prev) != set(cur) or any(set(prev[a]) != set(cur[a]) or any(abs(prev[a][n] - cur[a][n]) > 1e-12 for n in cur[a]) for a in cur)):
                    rec.fail("C19/multiple-inheritance/extraction-not-idempotent", f"weights {prev} became {cur} on extraction #{it + 1}")
                    return
                prev = cur
            if case["extractions"] >= 2:
                rec.nontrivial((tuple(ws), bases, case["nested_abstract"]))
        finally:
            sys.modules.pop(mod.__name__, None)


class ShippedWeighted(Facet):
    name = "shipped_symbolic_regression"
    enumerative = True

    def budget(self, tier):
        return (0, 1)

    def cases(self, tier, shard, nshards):
        yield {"grammar": "geml.grammars.symbolic_regression"}

    def run(self, case, rec):
        import importlib

        from geneticengine.grammar.grammar import extract_grammar

        m = importlib.import_module(case["grammar"])
        classes = [v for v in vars(m).values() if isinstance(v, type) and v.__module__ == m.__name__]
        start = m.Expression
        prev = None
        for it in range(3):
            g = extract_grammar(classes, start)
            for a, prods in g.alternatives.items():
                ws = [g.get_weights()[p] for p in prods]
                if any(w < 0 for w in ws) or abs(sum(ws) - 1) > 1e-9:
                    rec.fail("C19/shipped/not-normalised", f"{a.__name__}: weights sum to {sum(ws)} after extraction #{it + 1}")
                    return
            cur = {k.__name__: v for k, v in g.get_weights().items() if isinstance(k, type)}
            if prev is not None and any(abs(cur[k] - prev[k]) > 1e-12 for k in cur if k in prev):
                rec.fail("C19/shipped/extraction-not-idempotent", "weights changed on re-extraction of symbolic_regression")
                return
            prev = cur
        rec.nontrivial(("shipped", 1))
        rec.nontrivial(("shipped", 2))
        rec.sample({"grammar": case["grammar"], "weights": prev}, limit=1)


class UpdatedAfterConstruction(Facet):
    """A decider / representation object is built first; then Grammar.update_weights drives one
    production of a rule to exactly 0; the SAME objects go on choosing. They must honour the
    grammar's current weights (nothing remembered from construction time)."""

    name = "weights_updated_after_construction"
    flags = Flags(weights=True, zero_weights=False, dependent=False, user_mh=False, refined=False, lists=False, max_abstract=3, max_concrete=7, min_extra_concrete=2, unreachable=False)

    def budget(self, tier):
        return (60, 4) if tier == "quick" else (400, 16)

    def strategy(self, tier):
        return st.builds(lambda s, seed, d, k: {"spec": s, "seed": seed, "depth": d, "k": k}, specs(self.flags), st.integers(0, 2**31), st.integers(0, 6), st.integers(0, 40))

    def run(self, case, rec):
        from itertools import accumulate

        from geneticengine.random.sources import NativeRandomSource
        from geneticengine.representations.tree.initializations import ProgressivelyTerminalDecider
        from geneticengine.representations.tree.treebased import TreeBasedRepresentation
        from geneticengine.solutions.tree import LocalSynthesisContext
        from vk.props.c18 import FixedSource
        spec = case["spec"]
        mat = materialise(spec)
        try:
            info = SpecInfo(spec, mat.classes)
            try:
                g = mat.grammar()
            except Exception:  # noqa: BLE001
                rec.discard()
                return
            if g.get_min_tree_depth() >= 1000000:
                rec.discard()
                return
            rules = [(a, list(g.alternatives[mat.classes[a]])) for a in info.abstract_names if a in info.registered() and mat.classes[a] in g.alternatives]
            rules = [(a, alts) for a, alts in rules if len(alts) >= 2]
            if not rules:
                rec.discard()
                return
            a, alts = rules[case["k"] % len(rules)]
            # the victim must not be needed to terminate: keep a non-recursive alternative alive
            cands = [x for x in alts if any(y is not x and y not in g.recursive_prods for y in alts)]
            if not cands:
                rec.discard()
                return
            victim = cands[(case["k"] // 7) % len(cands)]
            probe = FixedSource.make(0)
            dec = ProgressivelyTerminalDecider(probe, g)  # built BEFORE the update
            calls = []

            class Spy(NativeRandomSource):
                def choice_weighted(self, choices, weights):
                    v = super().choice_weighted(choices, weights)
                    calls.append((v, list(choices), list(weights)))
                    return v

            rnd = Spy(case["seed"])
            rep = TreeBasedRepresentation(g, ProgressivelyTerminalDecider(rnd, g))
            try:
                rep.create_genotype(rnd)  # first use
            except Exception:  # noqa: BLE001
                pass
            w0 = g.get_weights()
            extra = {x: 0.0 for x in w0}
            extra[victim] = -w0[victim]
            try:
                g.update_weights(1.0, extra)
            except Exception:  # noqa: BLE001 - update_weights' own assertions: not this property
                rec.discard()
                return
            weights = g.get_weights()
            if weights.get(victim) != 0 or not any(weights[x] > 0 for x in alts if x is not victim):
                rec.discard()
                return
            rec.nontrivial((spec, a, mat.names[victim]))
            rec.sample({"spec": spec_str(spec), "rule": a, "zeroed": mat.names[victim]}, limit=3)
            ctx = LocalSynthesisContext(case["depth"], 0, 0, {})
            target = g.get_max_node_depth()

            def eff(n):
                base = target // (ctx.depth + 1) if n in g.recursive_prods else target - g.get_distance_to_terminal(n)
                return base * weights[n]

            effs = [eff(x) for x in alts]
            if any(e > 0 for e in effs):
                try:
                    dec.choose_production_alternatives(mat.classes[a], list(alts), ctx)
                    lo, hi = probe.asked
                except Exception:  # noqa: BLE001
                    lo = hi = None
                if lo is not None:
                    accs = [int(x * 100000) for x in accumulate(effs)]
                    pts = {lo, hi, hi - 1, lo + 1}
                    for acc in accs:
                        pts |= {acc - 1, acc, acc + 1}
                    for d in sorted(p for p in pts if lo <= p <= hi):
                        probe.v = d
                        r = dec.choose_production_alternatives(mat.classes[a], list(alts), ctx)
                        if r is victim:
                            rec.fail(
                                "C19/chooser/decider-built-before-update_weights-returns-zero-weight-production",
                                f"rule {a}: a ProgressivelyTerminalDecider built before Grammar.update_weights zeroed {mat.names[victim]} still returns it on draw {d} of [{lo},{hi}] (current weights {dict((mat.names[x], weights[x]) for x in alts)}); {spec_str(spec)}",
                            )
                            return
            # the representation object built before the update goes on creating programs; its
            # weighted choices are observed: the zeroed production must not be returned by a choice
            # in which another production had a positive weight (all-zero effective weights excluded)
            vname = mat.names[victim]
            del calls[:]
            for _ in range(6):
                try:
                    rep.create_genotype(rnd)
                except Exception:  # noqa: BLE001
                    break
            for v, choices, ws in calls:
                if v is victim and any(w > 0 and weights.get(x, 1.0) > 0 for x, w in zip(choices, ws) if x is not victim):
                    rec.fail(
                        "C19/chooser/representation-built-before-update_weights-chooses-zero-weight-production",
                        f"a tree representation (progressive decider) built before Grammar.update_weights zeroed {vname} of rule {a} chose it among {[mat.names.get(x, x) for x in choices]} with weights {ws}; {spec_str(spec)}",
                    )
                    return
        finally:
            mat.cleanup()


FACETS = [Normalisation(), Choosers(), ShippedWeighted(), UpdatedAfterConstruction(), MultipleInheritance()]
