"""C08 — same seed, same search: reproducible within and across processes."""
from __future__ import annotations

import json
import os
import subprocess
import sys
import tempfile

from hypothesis import strategies as st

from vk.core import VERIF_DIR, Facet
from vk.spec import Flags, spec_str, specs

LEVEL = "exploration"
RULE = (
    "Hypothesis draws a search configuration in the parent: grammar (several field-less productions, weights), algorithm "
    "(GP, random search, hill climbing, 1+1), one of five representations, initialiser, seed, EvaluationBudget <= 60, population "
    "<= 10. The configuration is run twice in the parent process and in >= 3 fresh child interpreters with different "
    "PYTHONHASHSEED values (0, 1, 4242, random), 0..333 throw-away classes and byte arrays allocated before the grammar classes "
    "are defined (moves class addresses and therefore set[type] iteration order) and a shuffled import order of geneticengine "
    "sub-modules. Oracle (differential): the sequence of canonical programs handed to the fitness function, the returned "
    "best program and its fitness are identical in all environments (compared by digest, first differing index reported). "
    "Non-trivial = a run that evaluated >= 2 distinct programs; distinct by configuration hash."
)
ASSUMPTIONS = [
    "process environments are sampled (hash seeds, allocation patterns, import orders), not enumerated",
    "wall-clock budgets are out of scope (EvaluationBudget only)",
    "fitness is a pure function of the canonical program (sha256-based), so ties/plateaus occur but never depend on the environment",
]

MODULES = [
    "geneticengine.grammar.grammar",
    "geneticengine.representations.stackgggp",
    "geneticengine.representations.grammatical_evolution.structured_ge",
    "geneticengine.representations.grammatical_evolution.ge",
    "geneticengine.representations.tree.treebased",
    "geneticengine.algorithms.gp.gp",
    "geneticengine.evaluation.tracker",
    "geneticengine.grammar.metahandlers.lists",
]


def run_child(case, env, full=False):
    job = {"case": case, "env": env, "full": full}
    with tempfile.NamedTemporaryFile("w", suffix=".json", delete=False, dir=os.environ.get("TMPDIR", "/tmp")) as f:
        json.dump(job, f)
        path = f.name
    try:
        e = dict(os.environ)
        e["PYTHONHASHSEED"] = str(env.get("hashseed", 0))
        if env.get("hashseed") == "random":
            e["PYTHONHASHSEED"] = "random"
        r = subprocess.run([sys.executable, "-m", "vk.c08_child", path], capture_output=True, text=True, env=e, cwd=VERIF_DIR, timeout=600)
    finally:
        os.unlink(path)
    for line in r.stdout.splitlines():
        if line.startswith("C08CHILD "):
            return json.loads(line[9:])
    raise RuntimeError(f"child produced no digest: rc={r.returncode} stderr={r.stderr[-800:]}")


@st.composite
def configs(draw, reps):
    fl = Flags(weights=True, max_concrete=7, max_abstract=3, dependent=True, infeasible=True, user_mh=False, unreachable=False)
    spec = draw(specs(fl))
    rep = draw(st.sampled_from(reps))
    return {
        "spec": spec,
        "rep": rep,
        "decider": draw(st.sampled_from(["maxdepth", "pigrow", "progressive"] if rep == "tree" else ["maxdepth", "pigrow"])),
        "depth_extra": draw(st.sampled_from([1, 2, 3])),
        "seed": draw(st.integers(0, 2**31)),
        "gene_length": draw(st.sampled_from([16, 64, 256])),
        "ops": [],
        "alg": draw(st.sampled_from(["gp", "gp", "rs", "hc", "1p1"])),
        "budget": draw(st.integers(5, 60)),
        "popsize": draw(st.integers(2, 10)),
        "minimize": draw(st.booleans()),
        "init": draw(st.sampled_from(["standard", "full", "grow", "pigrow", "ramped", "inject", "inject"])),
        "inject_n": draw(st.integers(1, 6)),
        "random_omitted": draw(st.sampled_from([False, False, True])),
        "gp_step": draw(st.sampled_from(["default", "crossover-heavy", "elitism-heavy", "elitism-heavy"])),
        # few fitness levels: many different programs tie at the elite cut
        "fitness_levels": draw(st.sampled_from([7, 7, 3, 2])),
        "budget_factor": draw(st.sampled_from([1, 2, 4])),
        "envs": [
            {"hashseed": draw(st.sampled_from([0, 1, 4242, "random"])), "dummies": draw(st.sampled_from([0, 1, 7, 50, 333])), "imports": draw(st.permutations(MODULES))[: draw(st.integers(0, len(MODULES)))], "define_order": draw(st.sampled_from([0, 1, 2, 3]))}
            for _ in range(3)
        ],
    }


class CrossProcess(Facet):
    name = "cross_process"
    fuzz_runs = 0  # every case spawns processes: too slow for a coverage-guided campaign
    report_unshrunk = True  # ... and for Hypothesis' shrinker (hundreds of re-executions): a violation is reported as found
    reps = ("tree", "ge", "sge", "dsge")

    def budget(self, tier):
        return (4, 8) if tier == "quick" else (25, 16)

    def strategy(self, tier):
        return configs(self.reps)

    def run(self, case, rec):
        from vk.c08_child import run as run_inproc

        rep = case["rep"]
        rec.label("rep:" + rep, "alg:" + case["alg"])
        a = run_inproc(case)
        b = run_inproc(case)
        if a["error"]:
            rec.discard()
            rec.label("discarded:search-raised-" + a["error"])
            return
        if a["distinct"] >= 2:
            rec.nontrivial({k: v for k, v in case.items() if k != "envs"})
        rec.sample({"spec": spec_str(case["spec"]), "rep": rep, "alg": case["alg"], "seed": case["seed"], "budget": case["budget"], "popsize": case["popsize"], "evaluated": a["n"], "distinct": a["distinct"], "envs": case["envs"]})
        if (a["sha"], a["best"], a["best_fitness"]) != (b["sha"], b["best"], b["best_fitness"]):
            rec.fail("C08/stack/symbol-order-differs-between-runs" if rep == "stack" else f"C08/in-process/{rep}", f"two runs in the same process differ: {self.diff(case, None, None)}; grammar {spec_str(case['spec'])}")
            return
        shared = run_inproc(case, repeats=3)
        for k, s in enumerate(shared):
            if (s["error"], s["sha"], s["best"], s["best_fitness"]) != (a["error"], a["sha"], a["best"], a["best_fitness"]):
                full = run_inproc(case, full=True, repeats=3)
                x, y = run_inproc(case, full=True), full[k]
                d = next((f"first difference at evaluation #{i}: {p} vs {q}" for i, (p, q) in enumerate(zip(x["seq"], y["seq"])) if p != q), f"evaluation counts {x['n']} vs {y['n']}, best {x['best']}/{x['best_fitness']} vs {y['best']}/{y['best_fitness']}, error {x['error']} vs {y['error']}")
                rec.fail(
                    f"C08/in-process-shared-configuration/{rep}",
                    f"search #{k + 1} of 3 run one after the other with the same grammar, initialiser ({case['init']}) and step objects but a fresh source/decider/representation of the same seed differs from a search with a freshly built configuration: {d}; algorithm {case['alg']}, seed {case['seed']}; grammar {spec_str(case['spec'])}",
                )
                return
        for env in case["envs"]:
            c = run_child(case, env)
            rec.label(f"child:hashseed={env['hashseed']}", f"child:dummies={env['dummies']}")
            if c["error"] != a["error"] or (c["sha"], c["best"], c["best_fitness"]) != (a["sha"], a["best"], a["best_fitness"]):
                rec.fail(
                    "C08/stack/symbol-order-differs-between-runs" if rep == "stack" else f"C08/cross-process/{rep}",
                    f"child process (PYTHONHASHSEED={env['hashseed']}, {env['dummies']} classes allocated first) differs from the parent run: {self.diff(case, env, a)}; algorithm {case['alg']}, seed {case['seed']}; grammar {spec_str(case['spec'])}",
                )
                return

    def diff(self, case, env, a):
        from vk.c08_child import run as run_inproc

        x = run_inproc(case, full=True)
        y = run_child(case, env, full=True) if env is not None else run_inproc(case, full=True)
        for i, (p, q) in enumerate(zip(x["seq"], y["seq"])):
            if p != q:
                return f"first difference at evaluation #{i}: {p} vs {q} (of {x['n']}/{y['n']})"
        if x["n"] != y["n"]:
            return f"evaluation counts differ {x['n']} vs {y['n']}"
        return f"same sequence but best {x['best']}/{x['best_fitness']} vs {y['best']}/{y['best_fitness']} (error {x['error']} vs {y['error']})"


class CrossProcessStack(CrossProcess):
    name = "cross_process_stack"
    reps = ("stack",)

    def budget(self, tier):
        return (4, 6) if tier == "quick" else (15, 8)


FACETS = [CrossProcess(), CrossProcessStack()]
