"""C13 — fitness is computed from the phenotype, once, and counted honestly."""
from __future__ import annotations

import os
import tempfile

from hypothesis import strategies as st

from vk.core import Facet

LEVEL = "exploration"
RULE = (
    "Hypothesis draws a population of 1-8 table-driven individuals (some already evaluated, the same Individual object listed "
    "twice, equal genotypes in distinct objects), one or two problems sharing the individuals (single-objective min/max; "
    "multi-objective with minimize as list or bool, with and without a user aggregate) and 1-3 successive evaluate calls. The "
    "fitness function is value-changing (a second invocation for the same individual and problem returns base+1000) and logs "
    "every invocation (in memory; for the parallel evaluator to an O_APPEND file written by the workers, with per-program "
    "sleeps drawn by Hypothesis so completion order is permuted). Oracle: stored components == first-call value of the "
    "individual's program; aggregate == v / -v / sum of +-components (or the user aggregate of the stored components); every "
    "(individual, problem) is invoked at most once; evaluator.number_of_evaluations() == number of invocations; "
    "ParallelEvaluator gives index-by-index the same fitness as SequentialEvaluator. Non-trivial = a population with >= 1 "
    "already-evaluated and >= 2 new individuals; distinct by case hash."
)
ASSUMPTIONS = [
    "the key of 'once' is (individual object, problem): two problems legitimately evaluate the same individual twice, and two distinct individuals with equal genotypes are both evaluated",
    "worker scheduling is provoked by harness-owned sleeps, not enumerated; worker crashes are out of reach",
]


class TableRep:
    def genotype_to_phenotype(self, g):
        return g


def ref_aggregate(kind, minimize, comps, agg):
    if kind == "single":
        return -comps[0] if minimize else comps[0]
    if agg == "first":
        return comps[0]
    if agg == "negsum":
        return -sum(comps)
    mins = minimize if isinstance(minimize, list) else [minimize] * len(comps)
    return sum((-c if m else c) for c, m in zip(comps, mins))


def make_problem(pdesc, log, jitter=None):
    """pdesc = {"kind": single|multi, "minimize":..., "agg": default|first|negsum, "k": n objectives}
    The fitness function is a pure table lookup plus a per-(individual, problem) call counter
    that makes a second invocation visible in the value."""
    from geneticengine.problems import MultiObjectiveProblem, SingleObjectiveProblem

    calls = {}
    tag = pdesc["tag"]

    def base(p):
        idx, val = p[0], p[1]
        key = (idx, tag)
        n = calls.get(key, 0)
        calls[key] = n + 1
        log(idx, tag)
        if jitter:
            import time

            time.sleep(jitter.get(idx, 0) / 1000.0)
        if n == 0 and pdesc.get("form"):
            # the number as a fitness function written with numpy returns it (uint8 sums of bit
            # errors, float32 losses ...): the recorded value and aggregate are those of the NUMBER
            from vk.values import as_form

            return as_form(val, pdesc["form"])
        return val + 1000.0 * n

    if pdesc["kind"] == "single":
        return SingleObjectiveProblem(lambda p: base(p), minimize=pdesc["minimize"])
    k = pdesc["k"]

    buffer = [0.0] * k
    returns = pdesc.get("returns", "fresh-list")

    def multi(p):
        v = base(p)
        if returns == "reused-list":
            # a fitness function that fills and returns one and the same list object on every call
            for j in range(k):
                buffer[j] = float(v + j)
            return buffer
        if returns == "ints-list":
            return [int(v) + j for j in range(k)]
        return [v + j for j in range(k)]

    user = {"default": None, "first": lambda xs: xs[0], "negsum": lambda xs: -sum(xs)}[pdesc["agg"]]
    return MultiObjectiveProblem(pdesc["minimize"], multi, aggregate_fitness=user)


@st.composite
def problem_descs(draw, tag):
    if draw(st.booleans()):
        from vk.values import NUMBER_FORMS

        return {"tag": tag, "kind": "single", "minimize": draw(st.booleans()), "agg": "default", "k": 1, "form": draw(st.sampled_from(NUMBER_FORMS))}
    k = draw(st.integers(2, 3))
    return {
        "tag": tag,
        "kind": "multi",
        "minimize": draw(st.one_of(st.booleans(), st.lists(st.booleans(), min_size=k, max_size=k))),
        "agg": draw(st.sampled_from(["default", "default", "first", "negsum"])),
        "k": k,
        "returns": draw(st.sampled_from(["fresh-list", "fresh-list", "reused-list", "ints-list"])),
    }


@st.composite
def eval_cases(draw, parallel):
    n = draw(st.integers(1, 6 if parallel else 8))
    values = [draw(st.integers(-5, 5)) for _ in range(n)]
    # population = list of indices into the individual table (repeats = same object twice)
    rounds = []
    for _ in range(draw(st.integers(1, 2 if parallel else 3))):
        pop = draw(st.lists(st.integers(0, n - 1), min_size=1, max_size=6 if parallel else 8))
        rounds.append({"pop": pop, "problem": draw(st.integers(0, 1))})
    return {
        "values": values,
        "problems": [draw(problem_descs("P0")), draw(problem_descs("P1"))],
        "rounds": rounds,
        "jitter": {str(i): draw(st.integers(0, 30)) for i in range(n)} if parallel else {},
        "parallel": parallel,
    }


def judge_round(case, rec, evaluator_name, evaluator, problems, pdescs, inds, log, rnd, first_value_seen):
    pi = rnd["problem"]
    problem, pdesc = problems[pi], pdescs[pi]
    pop = [inds[i] for i in rnd["pop"]]
    n_log0 = len(log())
    count0 = evaluator.number_of_evaluations()
    already = {i for i in set(rnd["pop"]) if inds[i].has_fitness(problem)}
    try:
        evaluator.evaluate(problem, pop)
    except Exception as e:  # noqa: BLE001
        rec.fail(f"C13/{evaluator_name}/evaluate-raised-{type(e).__name__}", f"evaluate raised {e!r} on population {rnd['pop']} ({pdesc})")
        return False
    new_log = log()[n_log0:]
    # (b) at most once per (individual, problem), counter == invocations
    per = {}
    for idx, tag in new_log:
        per[(idx, tag)] = per.get((idx, tag), 0) + 1
    expected_new = set(rnd["pop"]) - already
    multi_default = pdesc["kind"] == "multi" and pdesc["agg"] == "default"
    for (idx, tag), c in sorted(per.items()):
        entries = rnd["pop"].count(idx)
        if evaluator_name == "parallel" and (idx in already or entries > 1) and c in (entries, 2 * entries if multi_default else entries):
            rec.fail(
                "C13/parallel/evaluates-individuals-that-already-have-fitness",
                f"ParallelEvaluator invoked the fitness function {c}x for individual #{idx} ({'already evaluated' if idx in already else f'listed {entries}x'}) and problem {tag} on population {rnd['pop']} ({pdesc})",
            )
            return False
        if idx in already:
            rec.fail(
                f"C13/{evaluator_name}/re-evaluated-individual-that-had-fitness",
                f"individual #{idx} already had a fitness for {tag} but the fitness function was invoked again ({c}x) by {evaluator_name} on population {rnd['pop']}",
            )
            return False
        if c > 1:
            if multi_default and c == 2:
                rec.fail(
                    "C13/multi-default-aggregate/fitness-function-invoked-twice-per-evaluation",
                    f"fitness function invoked {c}x for individual #{idx} and problem {tag} ({pdesc}) in one evaluate call on population {rnd['pop']} ({evaluator_name} evaluator)",
                )
            else:
                rec.fail(
                    f"C13/{evaluator_name}/fitness-function-invoked-more-than-once",
                    f"fitness function invoked {c}x for individual #{idx} and problem {tag} ({pdesc}) in one evaluate call on population {rnd['pop']}",
                )
            return False
    counted = evaluator.number_of_evaluations() - count0
    if counted != len(new_log):
        rec.fail(
            f"C13/{evaluator_name}/counter-differs-from-invocations",
            f"evaluation counter advanced by {counted} but the fitness function was invoked {len(new_log)} times (population {rnd['pop']}, already evaluated {sorted(already)}, {pdesc})",
        )
        return False
    # (a) stored fitness
    for i in set(rnd["pop"]):
        ind = inds[i]
        if not ind.has_fitness(problem):
            rec.fail(f"C13/{evaluator_name}/individual-left-unevaluated", f"individual #{i} has no fitness after evaluate ({pdesc})")
            return False
        f = ind.get_fitness(problem)
        v = float(case["values"][i])
        exp_comps = [v] if pdesc["kind"] == "single" else [v + j for j in range(pdesc["k"])]
        if list(f.fitness_components) != exp_comps:
            rec.fail(
                f"C13/{evaluator_name}/stored-components-differ-from-fitness-function",
                f"individual #{i}: stored components {list(f.fitness_components)}, fitness function returns {exp_comps} for its program ({pdesc})",
            )
            return False
        exp_agg = ref_aggregate(pdesc["kind"], pdesc["minimize"], exp_comps, pdesc["agg"])
        if abs(f.maximizing_aggregate - exp_agg) > 1e-9:
            rec.fail(
                f"C13/{evaluator_name}/aggregate-wrong/{pdesc['kind']}-{pdesc['agg']}",
                f"individual #{i}: aggregate {f.maximizing_aggregate}, expected {exp_agg} from components {exp_comps} ({pdesc})",
            )
            return False
    return True


class Sequential(Facet):
    name = "sequential_evaluator"

    def budget(self, tier):
        return (200, 4) if tier == "quick" else (1000, 16)

    def strategy(self, tier):
        return eval_cases(False)

    def run(self, case, rec):
        from geneticengine.evaluation.sequential import SequentialEvaluator
        from geneticengine.solutions.individual import Individual

        entries = []
        problems = [make_problem(pd, lambda i, t: entries.append((i, t))) for pd in case["problems"]]
        rep = TableRep()
        inds = [Individual((i, v), rep) for i, v in enumerate(case["values"])]
        ev = SequentialEvaluator()
        rec.sample(case, limit=2)
        mixed = False
        for rnd in case["rounds"]:
            p = problems[rnd["problem"]]
            have = sum(1 for i in set(rnd["pop"]) if inds[i].has_fitness(p))
            if have >= 1 and len(set(rnd["pop"])) - have >= 2:
                mixed = True
            rec.label("problem:" + case["problems"][rnd["problem"]]["kind"] + "-" + case["problems"][rnd["problem"]]["agg"])
            if not judge_round(case, rec, "sequential", ev, problems, case["problems"], inds, lambda: entries, rnd, None):
                return
        if mixed:
            rec.nontrivial(case)


class LossyStr(tuple):
    """A genotype whose text does not identify it (as programs printed without parentheses or with
    rounded constants do): different genotypes, equal str()."""

    def __str__(self):
        return f"g{self[1] // 2}"

    __repr__ = __str__


class Parallel(Facet):
    name = "parallel_evaluator"
    fuzz_runs = 0  # every case spawns processes: too slow for a coverage-guided campaign

    def budget(self, tier):
        return (6, 8) if tier == "quick" else (40, 16)

    def strategy(self, tier):
        return eval_cases(True)

    def run(self, case, rec):
        from geneticengine.evaluation.parallel import ParallelEvaluator
        from geneticengine.evaluation.sequential import SequentialEvaluator
        from geneticengine.solutions.individual import Individual

        fd, path = tempfile.mkstemp(prefix="vk_c13_", suffix=".log")
        os.close(fd)
        try:
            def flog(i, t):
                with open(path, "a") as f:
                    f.write(f"{i} {t}\n")

            def read():
                with open(path) as f:
                    return [(int(a), b) for a, b in (line.split() for line in f if line.strip())]

            jitter = {int(k): v for k, v in case["jitter"].items()}
            problems = [make_problem(pd, flog, jitter) for pd in case["problems"]]
            rep = TableRep()
            mk = LossyStr if len(case["values"]) % 2 == 0 else tuple
            rec.label("genotype-text:" + ("lossy" if mk is LossyStr else "exact"))
            inds = [Individual(mk((i, v)), rep) for i, v in enumerate(case["values"])]
            ev = ParallelEvaluator()
            rec.sample(case, limit=2)
            mixed = False
            for rnd in case["rounds"]:
                p = problems[rnd["problem"]]
                have = sum(1 for i in set(rnd["pop"]) if inds[i].has_fitness(p))
                if have >= 1 and len(set(rnd["pop"])) - have >= 2:
                    mixed = True
                rec.label("problem:" + case["problems"][rnd["problem"]]["kind"] + "-" + case["problems"][rnd["problem"]]["agg"])
                if not judge_round(case, rec, "parallel", ev, problems, case["problems"], inds, read, rnd, None):
                    return
            # differential: sequential evaluator on structurally equal individuals
            entries = []
            problems2 = [make_problem(pd, lambda i, t: entries.append((i, t))) for pd in case["problems"]]
            inds2 = [Individual((i, v), rep) for i, v in enumerate(case["values"])]
            ev2 = SequentialEvaluator()
            for rnd in case["rounds"]:
                ev2.evaluate(problems2[rnd["problem"]], [inds2[i] for i in rnd["pop"]])
            for pi in (0, 1):
                for i in range(len(inds)):
                    a, b = inds[i].has_fitness(problems[pi]), inds2[i].has_fitness(problems2[pi])
                    if a != b or (a and tuple(inds[i].get_fitness(problems[pi]).fitness_components) != tuple(inds2[i].get_fitness(problems2[pi]).fitness_components)):
                        fa = inds[i].get_fitness(problems[pi]) if a else None
                        fb = inds2[i].get_fitness(problems2[pi]) if b else None
                        rec.fail(
                            "C13/parallel/differs-from-sequential",
                            f"individual #{i}, problem P{pi}: parallel {fa} vs sequential {fb}; rounds {case['rounds']}",
                        )
                        return
            if mixed:
                rec.nontrivial(case)
        finally:
            try:
                os.unlink(path)
            except OSError:
                pass


class GPRuns(Facet):
    """Step compositions that re-present individuals to the evaluator (elitism, tournament,
    identity): across a whole GP run every Individual object is evaluated exactly once and
    the counter equals the number of fitness-function invocations."""

    name = "gp_runs_evaluate_each_individual_once"
    fuzz_runs = 0  # every case spawns processes: too slow for a coverage-guided campaign

    def budget(self, tier):
        return (30, 6) if tier == "quick" else (200, 16)

    def strategy(self, tier):
        from vk.props.c14 import gp_steps

        return st.integers(2, 8).flatmap(
            lambda pop: st.builds(
                lambda step, gens, seed, par, multi: {"popsize": pop, "step": step, "gens": gens, "seed": seed, "parallel": par, "multi": multi},
                gp_steps(pop),
                st.integers(1, 4),
                st.integers(0, 2**31),
                st.sampled_from([False, False, False, True]),
                st.booleans(),
            ),
        )

    def run(self, case, rec):
        import hashlib

        from geneticengine.algorithms.gp.gp import GeneticProgramming
        from geneticengine.evaluation.budget import SearchBudget
        from geneticengine.evaluation.parallel import ParallelEvaluator
        from geneticengine.evaluation.recorder import SearchRecorder
        from geneticengine.evaluation.sequential import SequentialEvaluator
        from geneticengine.evaluation.tracker import MultiObjectiveProgressTracker, SingleObjectiveProgressTracker
        from geneticengine.problems import MultiObjectiveProblem, SingleObjectiveProblem
        from vk.props.c15 import make_world
        from vk.refmodel import canon, canon_str
        from vk.steps import build_step, step_str

        par = case["parallel"] and case["popsize"] <= 4 and case["gens"] <= 2
        _reset_pathos()  # cached pool workers were forked before this case's grammar module existed
        w = make_world(case["seed"])
        fd, path = tempfile.mkstemp(prefix="vk_c13g_", suffix=".log")
        os.close(fd)
        try:
            info = w.info

            seen_programs = []  # kept alive so that ids are not reused

            def value(p):
                seen_programs.append(p)
                with open(path, "a") as f:
                    f.write("x\n")
                return float(hashlib.sha256(canon_str(canon(p, info)).encode()).digest()[0] % 9)

            if case["multi"]:
                problem = MultiObjectiveProblem([False, True], lambda p: [value(p), 1.0])
            else:
                problem = SingleObjectiveProblem(value)
            registered = []

            class Spy(SearchRecorder):
                def register(self, tracker, individual, problem, is_best):
                    registered.append(individual)

            class GenBudget(SearchBudget):
                def __init__(self, g):
                    self.g, self.n = g, 0

                def is_done(self, tracker):
                    self.n += 1
                    return self.n > self.g

            ev = ParallelEvaluator() if par else SequentialEvaluator()
            T = MultiObjectiveProgressTracker if case["multi"] else SingleObjectiveProgressTracker
            tracker = T(problem, ev, recorders=[Spy()])
            gp = GeneticProgramming(problem=problem, budget=GenBudget(case["gens"]), representation=w.rep, random=w.random, tracker=tracker, population_size=case["popsize"], step=build_step(case["step"]))
            rec.label("parallel" if par else "sequential", "multi" if case["multi"] else "single")
            rec.sample({"step": step_str(case["step"]), "popsize": case["popsize"], "gens": case["gens"], "parallel": par}, limit=2)
            try:
                gp.search()
            except Exception as e:  # noqa: BLE001
                rec.discard()
                rec.label("discarded:" + type(e).__name__)
                return
            with open(path) as f:
                invocations = sum(1 for _ in f)
            distinct = len({id(i) for i in registered})
            desc = f"GP(population_size={case['popsize']}, {case['gens']} generations, step={step_str(case['step'])}, {'parallel' if par else 'sequential'} evaluator, {'multi' if case['multi'] else 'single'}-objective)"
            # tree genotype == phenotype object and the start symbol is abstract (crossover builds fresh
            # trees), so one program object belongs to one individual: no object may be evaluated twice.
            # (Individuals evaluated inside a step but never selected are legitimately not registered.)
            twice = len(seen_programs) - len({id(x) for x in seen_programs}) if not par else 0
            if twice:
                rec.fail(
                    "C13/gp-run/sequential/individual-evaluated-more-than-once",
                    f"{desc}: {twice} fitness invocation(s) were for a program object that had been evaluated before ({invocations} invocations, {distinct} individuals registered)",
                )
            elif ev.number_of_evaluations() != invocations:
                rec.fail(
                    f"C13/gp-run/{'parallel' if par else 'sequential'}/counter-differs-from-invocations",
                    f"{desc}: counter {ev.number_of_evaluations()}, invocations {invocations}",
                )
            elif tracker.get_number_evaluations() != invocations:
                # the number the budgets read
                rec.fail(
                    f"C13/gp-run/{'parallel' if par else 'sequential'}/tracker-counter-differs-from-invocations",
                    f"{desc}: tracker.get_number_evaluations() = {tracker.get_number_evaluations()}, fitness function invoked {invocations} times (evaluator counter {ev.number_of_evaluations()})",
                )
            if len(registered) > distinct + 1:
                rec.nontrivial(case)
        finally:
            w.cleanup()
            _reset_pathos()
            try:
                os.unlink(path)
            except OSError:
                pass


def _reset_pathos():
    """pathos caches its worker pools per process; workers forked for an earlier case cannot
    unpickle functions that refer to a grammar module created later (the map would block)."""
    try:
        from pathos.helpers import shutdown

        shutdown()
    except Exception:  # noqa: BLE001
        pass


class ShortLivedProblems(Facet):
    """The same individuals are scored under a succession of problem objects, each built inside a helper,
    used once and released before the next one is built (a loop over data sets, folds, targets ...):
    every new problem must have its own fitness function invoked once per individual and its own
    values recorded - whatever an individual remembers about a problem that no longer exists."""

    name = "successive_short_lived_problems"

    def budget(self, tier):
        return (100, 2) if tier == "quick" else (600, 8)

    def strategy(self, tier):
        return st.builds(
            lambda vals, gens, seed: {"values": vals, "generations": gens, "seed": seed},
            st.lists(st.integers(-5, 5), min_size=1, max_size=6),
            st.lists(st.tuples(st.sampled_from(["single", "multi2", "multi3"]), st.booleans(), st.sampled_from(["keep-nothing", "del", "helper"])), min_size=2, max_size=12),
            st.integers(0, 2**31),
        )

    def run(self, case, rec):
        from geneticengine.evaluation.sequential import SequentialEvaluator
        from geneticengine.problems import MultiObjectiveProblem, SingleObjectiveProblem
        from geneticengine.solutions.individual import Individual

        rep = TableRep()
        inds = [Individual((i, v), rep) for i, v in enumerate(case["values"])]
        ev = SequentialEvaluator()
        rec.sample(case, limit=2)
        state = {"bad": None}

        def one(g, kind, minimize):
            log = []
            off = 100.0 * (g + 1)
            k = {"single": 1, "multi2": 2, "multi3": 3}[kind]
            if k == 1:
                problem = SingleObjectiveProblem(lambda p: (log.append(p[0]), p[1] + off)[1], minimize=minimize)
            else:
                problem = MultiObjectiveProblem([minimize] * k, lambda p: (log.append(p[0]), [p[1] + off + j for j in range(k)])[1])
            ev.evaluate(problem, list(inds))
            if sorted(log) != list(range(len(inds))):
                state["bad"] = ("C13/short-lived-problems/fitness-function-not-invoked-once-per-individual", f"problem #{g} ({kind}, minimize={minimize}): fitness function invoked for individuals {sorted(log)}, expected each of {list(range(len(inds)))} once")
                return
            for i, ind in enumerate(inds):
                f = ind.get_fitness(problem)
                exp = [case["values"][i] + off + j for j in range(k)]
                if list(f.fitness_components) != exp:
                    state["bad"] = ("C13/short-lived-problems/stored-components-differ-from-fitness-function", f"problem #{g} ({kind}): individual #{i} has components {list(f.fitness_components)}, its fitness function returns {exp}")
                    return
                exp_agg = sum(-x if minimize else x for x in exp)
                if abs(f.maximizing_aggregate - exp_agg) > 1e-9:
                    state["bad"] = ("C13/short-lived-problems/aggregate-wrong", f"problem #{g} ({kind}, minimize={minimize}): individual #{i} has aggregate {f.maximizing_aggregate}, expected {exp_agg}")
                    return

        for g, (kind, minimize, how) in enumerate(case["generations"]):
            one(g, kind, minimize)  # the problem object is released when one() returns
            if state["bad"]:
                rec.fail(state["bad"][0], state["bad"][1] + f"; values {case['values']}, problems so far {case['generations'][: g + 1]}")
                return
        if len(case["generations"]) >= 3:
            rec.nontrivial(case)


class ParallelOnRepresentations(Facet):
    """ParallelEvaluator on freshly created (not yet mapped) individuals of every representation: the
    recorded fitness must be the fitness function's value for the program the individual reports
    afterwards (the mapping happens on a pickled copy inside a worker process)."""

    name = "parallel_evaluator_on_unmapped_individuals"
    fuzz_runs = 0  # every case spawns processes: too slow for a coverage-guided campaign

    def budget(self, tier):
        return (6, 4) if tier == "quick" else (40, 8)

    def strategy(self, tier):
        return st.builds(
            lambda seed, rep, n: {"seed": seed, "rep": rep, "n": n},
            st.integers(0, 2**31),
            st.sampled_from(["tree", "ge", "sge", "dsge", "stack"]),
            st.integers(1, 4),
        )

    def run(self, case, rec):
        import hashlib

        from geneticengine.evaluation.parallel import ParallelEvaluator
        from geneticengine.problems import SingleObjectiveProblem
        from geneticengine.solutions.individual import Individual
        from vk.props.c15 import make_world
        from vk.refmodel import canon, canon_str

        _reset_pathos()
        w = make_world(case["seed"], case["rep"])
        try:
            info = w.info

            def ff(p):
                return float(int(hashlib.sha256(canon_str(canon(p, info)).encode()).hexdigest()[:6], 16))

            problem = SingleObjectiveProblem(ff)
            inds = [Individual(w.rep.create_genotype(w.random), w.rep) for _ in range(case["n"])]
            rec.label("rep:" + case["rep"])
            try:
                ParallelEvaluator().evaluate(problem, inds)
            except Exception as e:  # noqa: BLE001
                rec.discard()
                rec.label("discarded:" + type(e).__name__)
                return
            rec.nontrivial((case["rep"], case["seed"], case["n"]))
            for k, ind in enumerate(inds):
                got = ind.get_fitness(problem).fitness_components[0]
                p = ind.get_phenotype()
                exp = ff(p)
                if got != exp:
                    rec.fail(
                        f"C13/parallel/recorded-fitness-is-not-the-fitness-of-the-individual's-program/{case['rep']}",
                        f"{case['rep']} individual #{k}: recorded fitness {got}, but its program {canon_str(canon(p, info))} has fitness {exp} (the worker evaluated another program)",
                    )
                    return
        finally:
            w.cleanup()
            _reset_pathos()


class TrackerCounters(Facet):
    """Several progress trackers built the documented way - with and without an explicit evaluator - in
    one process, each scoring its own individuals under its own problem: a tracker's evaluation
    counter must equal the number of fitness-function invocations made through THAT tracker (a new
    tracker reports 0; one tracker's work does not move another's counter)."""

    name = "tracker_evaluation_counters"

    def budget(self, tier):
        return (100, 2) if tier == "quick" else (600, 8)

    def strategy(self, tier):
        tr = st.tuples(st.sampled_from(["single", "multi"]), st.sampled_from(["default-evaluator", "default-evaluator", "explicit-evaluator"]), st.integers(0, 5))
        return st.builds(lambda trs, order: {"trackers": trs, "order": order}, st.lists(tr, min_size=2, max_size=5), st.lists(st.integers(0, 4), min_size=2, max_size=10))

    def run(self, case, rec):
        from geneticengine.evaluation.sequential import SequentialEvaluator
        from geneticengine.evaluation.tracker import MultiObjectiveProgressTracker, SingleObjectiveProgressTracker
        from geneticengine.problems import MultiObjectiveProblem, SingleObjectiveProblem
        from geneticengine.solutions.individual import Individual

        rep = TableRep()
        made = []
        for k, (kind, how, n) in enumerate(case["trackers"]):
            calls = []
            if kind == "single":
                problem = SingleObjectiveProblem(lambda p, calls=calls: (calls.append(p[0]), float(p[1]))[1])
                cls = SingleObjectiveProgressTracker
            else:
                problem = MultiObjectiveProblem([False, True], lambda p, calls=calls: (calls.append(p[0]), [float(p[1]), 1.0])[1])
                cls = MultiObjectiveProgressTracker
            tracker = cls(problem) if how == "default-evaluator" else cls(problem, SequentialEvaluator())
            made.append((tracker, calls, kind, how, n, problem))
            if tracker.get_number_evaluations() != 0:
                rec.fail(
                    "C13/tracker-counter/new-tracker-does-not-start-at-zero",
                    f"tracker #{k} ({kind}, {how}) reports {tracker.get_number_evaluations()} evaluations before anything was evaluated through it; trackers {case['trackers']}",
                )
                return
        rec.sample(case, limit=2)
        serial = 0
        for which in case["order"]:
            tracker, calls, kind, how, n, problem = made[which % len(made)]
            inds = [Individual((serial + j, j), rep) for j in range(n)]
            serial += n
            tracker.evaluate(inds)
            for k, (t2, c2, kind2, how2, _, _) in enumerate(made):
                if t2.get_number_evaluations() != len(c2):
                    rec.fail(
                        "C13/tracker-counter/differs-from-invocations",
                        f"tracker #{k} ({kind2}, {how2}) reports {t2.get_number_evaluations()} evaluations but its fitness function was invoked {len(c2)} times (after evaluating {n} individuals through tracker #{which % len(made)}); trackers {case['trackers']}, order {case['order']}",
                    )
                    return
        if sum(1 for _, _, _, how, n, _ in made if how == "default-evaluator" and n > 0) >= 2:
            rec.nontrivial(case)


FACETS = [Sequential(), Parallel(), GPRuns(), ShortLivedProblems(), ParallelOnRepresentations(), TrackerCounters()]
