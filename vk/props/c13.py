"""C13 — fitness is computed from the phenotype, once, and counted honestly."""
from __future__ import annotations

import os
import tempfile

from hypothesis import strategies as st

from vk.core import Facet

LEVEL = "exploration"
RULE = (
    "Hypothesis draws a population of 1-8 table-driven individuals (some already evaluated, the same Individual object listed "
    "twice, equal genotypes in distinct objects), one or two problems sharing the individuals (single-objective min/max; "
    "multi-objective with minimize as list or bool, with and without a user aggregate) and 1-3 successive evaluate calls. The "
    "fitness function is value-changing (a second invocation for the same individual and problem returns base+1000) and logs "
    "every invocation (in memory; for the parallel evaluator to an O_APPEND file written by the workers, with per-program "
    "sleeps drawn by Hypothesis so completion order is permuted). Oracle: stored components == first-call value of the "
    "individual's program; aggregate == v / -v / sum of +-components (or the user aggregate of the stored components); every "
    "(individual, problem) is invoked at most once; evaluator.number_of_evaluations() == number of invocations; "
    "ParallelEvaluator gives index-by-index the same fitness as SequentialEvaluator. Non-trivial = a population with >= 1 "
    "already-evaluated and >= 2 new individuals; distinct by case hash."
)
ASSUMPTIONS = [
    "the key of 'once' is (individual object, problem): two problems legitimately evaluate the same individual twice, and two distinct individuals with equal genotypes are both evaluated",
    "worker scheduling is provoked by harness-owned sleeps, not enumerated; worker crashes are out of reach",
]


class TableRep:
    def genotype_to_phenotype(self, g):
        return g


def ref_aggregate(kind, minimize, comps, agg):
    if kind == "single":
        return -comps[0] if minimize else comps[0]
    if agg == "first":
        return comps[0]
    if agg == "negsum":
        return -sum(comps)
    mins = minimize if isinstance(minimize, list) else [minimize] * len(comps)
    return sum((-c if m else c) for c, m in zip(comps, mins))


def make_problem(pdesc, log, jitter=None):
    """pdesc = {"kind": single|multi, "minimize":..., "agg": default|first|negsum, "k": n objectives}
    The fitness function is a pure table lookup plus a per-(individual, problem) call counter
    that makes a second invocation visible in the value."""
    from geneticengine.problems import MultiObjectiveProblem, SingleObjectiveProblem

    calls = {}
    tag = pdesc["tag"]

    def base(p):
        idx, val = p[0], p[1]
        key = (idx, tag)
        n = calls.get(key, 0)
        calls[key] = n + 1
        log(idx, tag)
        if jitter:
            import time

            time.sleep(jitter.get(idx, 0) / 1000.0)
        return val + 1000.0 * n

    if pdesc["kind"] == "single":
        return SingleObjectiveProblem(lambda p: base(p), minimize=pdesc["minimize"])
    k = pdesc["k"]

    def multi(p):
        v = base(p)
        return [v + j for j in range(k)]

    user = {"default": None, "first": lambda xs: xs[0], "negsum": lambda xs: -sum(xs)}[pdesc["agg"]]
    return MultiObjectiveProblem(pdesc["minimize"], multi, aggregate_fitness=user)


@st.composite
def problem_descs(draw, tag):
    if draw(st.booleans()):
        return {"tag": tag, "kind": "single", "minimize": draw(st.booleans()), "agg": "default", "k": 1}
    k = draw(st.integers(2, 3))
    return {
        "tag": tag,
        "kind": "multi",
        "minimize": draw(st.one_of(st.booleans(), st.lists(st.booleans(), min_size=k, max_size=k))),
        "agg": draw(st.sampled_from(["default", "default", "first", "negsum"])),
        "k": k,
    }


@st.composite
def eval_cases(draw, parallel):
    n = draw(st.integers(1, 6 if parallel else 8))
    values = [draw(st.integers(-5, 5)) for _ in range(n)]
    # population = list of indices into the individual table (repeats = same object twice)
    rounds = []
    for _ in range(draw(st.integers(1, 2 if parallel else 3))):
        pop = draw(st.lists(st.integers(0, n - 1), min_size=1, max_size=6 if parallel else 8))
        rounds.append({"pop": pop, "problem": draw(st.integers(0, 1))})
    return {
        "values": values,
        "problems": [draw(problem_descs("P0")), draw(problem_descs("P1"))],
        "rounds": rounds,
        "jitter": {str(i): draw(st.integers(0, 30)) for i in range(n)} if parallel else {},
        "parallel": parallel,
    }


def judge_round(case, rec, evaluator_name, evaluator, problems, pdescs, inds, log, rnd, first_value_seen):
    pi = rnd["problem"]
    problem, pdesc = problems[pi], pdescs[pi]
    pop = [inds[i] for i in rnd["pop"]]
    n_log0 = len(log())
    count0 = evaluator.number_of_evaluations()
    already = {i for i in set(rnd["pop"]) if inds[i].has_fitness(problem)}
    try:
        evaluator.evaluate(problem, pop)
    except Exception as e:  # noqa: BLE001
        rec.fail(f"C13/{evaluator_name}/evaluate-raised-{type(e).__name__}", f"evaluate raised {e!r} on population {rnd['pop']} ({pdesc})")
        return False
    new_log = log()[n_log0:]
    # (b) at most once per (individual, problem), counter == invocations
    per = {}
    for idx, tag in new_log:
        per[(idx, tag)] = per.get((idx, tag), 0) + 1
    expected_new = set(rnd["pop"]) - already
    multi_default = pdesc["kind"] == "multi" and pdesc["agg"] == "default"
    for (idx, tag), c in sorted(per.items()):
        entries = rnd["pop"].count(idx)
        if evaluator_name == "parallel" and (idx in already or entries > 1) and c in (entries, 2 * entries if multi_default else entries):
            rec.fail(
                "C13/parallel/evaluates-individuals-that-already-have-fitness",
                f"ParallelEvaluator invoked the fitness function {c}x for individual #{idx} ({'already evaluated' if idx in already else f'listed {entries}x'}) and problem {tag} on population {rnd['pop']} ({pdesc})",
            )
            return False
        if idx in already:
            rec.fail(
                f"C13/{evaluator_name}/re-evaluated-individual-that-had-fitness",
                f"individual #{idx} already had a fitness for {tag} but the fitness function was invoked again ({c}x) by {evaluator_name} on population {rnd['pop']}",
            )
            return False
        if c > 1:
            if multi_default and c == 2:
                rec.fail(
                    "C13/multi-default-aggregate/fitness-function-invoked-twice-per-evaluation",
                    f"fitness function invoked {c}x for individual #{idx} and problem {tag} ({pdesc}) in one evaluate call on population {rnd['pop']} ({evaluator_name} evaluator)",
                )
            else:
                rec.fail(
                    f"C13/{evaluator_name}/fitness-function-invoked-more-than-once",
                    f"fitness function invoked {c}x for individual #{idx} and problem {tag} ({pdesc}) in one evaluate call on population {rnd['pop']}",
                )
            return False
    counted = evaluator.number_of_evaluations() - count0
    if counted != len(new_log):
        rec.fail(
            f"C13/{evaluator_name}/counter-differs-from-invocations",
            f"evaluation counter advanced by {counted} but the fitness function was invoked {len(new_log)} times (population {rnd['pop']}, already evaluated {sorted(already)}, {pdesc})",
        )
        return False
    # (a) stored fitness
    for i in set(rnd["pop"]):
        ind = inds[i]
        if not ind.has_fitness(problem):
            rec.fail(f"C13/{evaluator_name}/individual-left-unevaluated", f"individual #{i} has no fitness after evaluate ({pdesc})")
            return False
        f = ind.get_fitness(problem)
        v = float(case["values"][i])
        exp_comps = [v] if pdesc["kind"] == "single" else [v + j for j in range(pdesc["k"])]
        if list(f.fitness_components) != exp_comps:
            rec.fail(
                f"C13/{evaluator_name}/stored-components-differ-from-fitness-function",
                f"individual #{i}: stored components {list(f.fitness_components)}, fitness function returns {exp_comps} for its program ({pdesc})",
            )
            return False
        exp_agg = ref_aggregate(pdesc["kind"], pdesc["minimize"], exp_comps, pdesc["agg"])
        if abs(f.maximizing_aggregate - exp_agg) > 1e-9:
            rec.fail(
                f"C13/{evaluator_name}/aggregate-wrong/{pdesc['kind']}-{pdesc['agg']}",
                f"individual #{i}: aggregate {f.maximizing_aggregate}, expected {exp_agg} from components {exp_comps} ({pdesc})",
            )
            return False
    return True


class Sequential(Facet):
    name = "sequential_evaluator"

    def budget(self, tier):
        return (200, 4) if tier == "quick" else (1000, 16)

    def strategy(self, tier):
        return eval_cases(False)

    def run(self, case, rec):
        from geneticengine.evaluation.sequential import SequentialEvaluator
        from geneticengine.solutions.individual import Individual

        entries = []
        problems = [make_problem(pd, lambda i, t: entries.append((i, t))) for pd in case["problems"]]
        rep = TableRep()
        inds = [Individual((i, v), rep) for i, v in enumerate(case["values"])]
        ev = SequentialEvaluator()
        rec.sample(case, limit=2)
        mixed = False
        for rnd in case["rounds"]:
            p = problems[rnd["problem"]]
            have = sum(1 for i in set(rnd["pop"]) if inds[i].has_fitness(p))
            if have >= 1 and len(set(rnd["pop"])) - have >= 2:
                mixed = True
            rec.label("problem:" + case["problems"][rnd["problem"]]["kind"] + "-" + case["problems"][rnd["problem"]]["agg"])
            if not judge_round(case, rec, "sequential", ev, problems, case["problems"], inds, lambda: entries, rnd, None):
                return
        if mixed:
            rec.nontrivial(case)


class Parallel(Facet):
    name = "parallel_evaluator"

    def budget(self, tier):
        return (6, 8) if tier == "quick" else (40, 16)

    def strategy(self, tier):
        return eval_cases(True)

    def run(self, case, rec):
        from geneticengine.evaluation.parallel import ParallelEvaluator
        from geneticengine.evaluation.sequential import SequentialEvaluator
        from geneticengine.solutions.individual import Individual

        fd, path = tempfile.mkstemp(prefix="vk_c13_", suffix=".log")
        os.close(fd)
        try:
            def flog(i, t):
                with open(path, "a") as f:
                    f.write(f"{i} {t}\n")

            def read():
                with open(path) as f:
                    return [(int(a), b) for a, b in (line.split() for line in f if line.strip())]

            jitter = {int(k): v for k, v in case["jitter"].items()}
            problems = [make_problem(pd, flog, jitter) for pd in case["problems"]]
            rep = TableRep()
            inds = [Individual((i, v), rep) for i, v in enumerate(case["values"])]
            ev = ParallelEvaluator()
            rec.sample(case, limit=2)
            mixed = False
            for rnd in case["rounds"]:
                p = problems[rnd["problem"]]
                have = sum(1 for i in set(rnd["pop"]) if inds[i].has_fitness(p))
                if have >= 1 and len(set(rnd["pop"])) - have >= 2:
                    mixed = True
                rec.label("problem:" + case["problems"][rnd["problem"]]["kind"] + "-" + case["problems"][rnd["problem"]]["agg"])
                if not judge_round(case, rec, "parallel", ev, problems, case["problems"], inds, read, rnd, None):
                    return
            # differential: sequential evaluator on structurally equal individuals
            entries = []
            problems2 = [make_problem(pd, lambda i, t: entries.append((i, t))) for pd in case["problems"]]
            inds2 = [Individual((i, v), rep) for i, v in enumerate(case["values"])]
            ev2 = SequentialEvaluator()
            for rnd in case["rounds"]:
                ev2.evaluate(problems2[rnd["problem"]], [inds2[i] for i in rnd["pop"]])
            for pi in (0, 1):
                for i in range(len(inds)):
                    a, b = inds[i].has_fitness(problems[pi]), inds2[i].has_fitness(problems2[pi])
                    if a != b or (a and tuple(inds[i].get_fitness(problems[pi]).fitness_components) != tuple(inds2[i].get_fitness(problems2[pi]).fitness_components)):
                        fa = inds[i].get_fitness(problems[pi]) if a else None
                        fb = inds2[i].get_fitness(problems2[pi]) if b else None
                        rec.fail(
                            "C13/parallel/differs-from-sequential",
                            f"individual #{i}, problem P{pi}: parallel {fa} vs sequential {fb}; rounds {case['rounds']}",
                        )
                        return
            if mixed:
                rec.nontrivial(case)
        finally:
            try:
                os.unlink(path)
            except OSError:
                pass


FACETS = [Sequential(), Parallel()]
