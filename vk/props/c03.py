"""C03 — depth limits are respected and every feasible depth limit is usable."""
from __future__ import annotations

from hypothesis import strategies as st

from vk.core import Facet
from vk.refmodel import canon, canon_str, depth, depth_expansion, safe_canon, safe_depth
from vk.sources import ScriptedSource, Unbounded, enumerate_all
from vk.spec import Flags, spec_str, specs
from vk.world import World, exc_bucket, is_library_error, world_cases

LEVEL = "exploration"
RULE = (
    "Hypothesis draws a grammar (bare and sized lists of abstract elements, unions, tuples, nested abstract layers, mutual "
    "recursion), a depth limit d = grammar.get_min_tree_depth() + k with k in {0 (weighted), 1, 2, 3, 5} or d < minimum, a "
    "depth-limited decider (grow/full/PI-grow) used directly (tree) or through GE/SGE mapping, or dSGE(max_depth=d), a seed "
    "and a create/map/mutate/crossover sequence. Oracle: d >= min => construction and every creation/mapping complete "
    "without any exception and depth(program) (longest chain of nodes, reference traversal) <= d after every operation; "
    "d < min => a library error is raised before any random draw is made. A second facet enumerates ALL decision paths of "
    "a scripted source at the frontier (k in {0,1}); a third uses expansion-depthing on class-field-only grammars; a fourth "
    "drives the depth-taking initialisers. Non-trivial = frontier case (k=0) or a program whose depth equals d; distinct by "
    "(representation, decider, canonical program)."
)
ASSUMPTIONS = [
    "the minimum is the grammar's own get_min_tree_depth() (its exactness is C05's business)",
    "depth in tree mode = longest chain of nested grammar nodes; expansion mode judged only on class-field-only grammars",
    "SynthesisException/GeneticEngineError from infeasible dependent contexts are not generated here (no dependent refinements)",
]

FLAGS = Flags(refined=True, dependent=False, user_mh=False, max_concrete=6, concrete_start=True, weights=True, zero_weights=True)
DECIDERS = ("maxdepth", "full", "pigrow")


def _judge_depth(rec, rep, case, w, p, how, d, exp=False):
    info = w.info
    # The property defines depth as the longest chain of nested grammar nodes, in both
    # depth-counting modes; the documented expansion measure is only recorded as a label.
    dep = safe_depth(p, info)
    c = safe_canon(p, info)
    if exp and dep < 10**6 and depth_expansion(p, info.start, info) > d:
        rec.label("info:expansion-measure-exceeds-limit")
    if dep > d:
        rec.fail(
            f"C03/depth-exceeded/{'stack' if rep == 'stack' else rep}/{case['decider'] if rep != 'dsge' else 'dsge-decider'}/{how if how in ('mutate', 'crossover') else 'create'}",
            f"{how} ({rep}, decider {case['decider']}, max_depth {d}, grammar min {w.min_depth}): program of depth {dep}: {canon_str(c)}; grammar {spec_str(case['spec'])}",
        )
    if dep == d or case["depth_extra"] == 0:
        rec.nontrivial((rep, case["decider"], c))
    rec.label(f"depth==limit@{rep}" if dep == d else f"depth<limit@{rep}")


class DepthOps(Facet):
    name = "depth_ops"
    flags = FLAGS
    reps = ("tree", "ge", "sge", "dsge")
    exp = False

    def budget(self, tier):
        return (100, 8) if tier == "quick" else (600, 16)

    def strategy(self, tier):
        return world_cases(self.flags, reps=self.reps, deciders=DECIDERS, max_ops=8, depth_extras=(0, 0, 0, 1, 2, 3, 5))

    def run(self, case, rec):
        w = World(case)
        try:
            self._run(case, rec, w)
        finally:
            w.cleanup()

    def _run(self, case, rec, w):
        rep = case["rep"]
        if not w.productive():
            rec.discard()
            return
        d = w.max_depth
        rec.label("rep:" + rep, "decider:" + case["decider"], f"k={case['depth_extra']}")
        try:
            w.build()
        except Exception as e:  # noqa: BLE001
            rec.fail(
                f"C03/feasible-limit-rejected/{rep}/build/{exc_bucket(e)}",
                f"max_depth {d} >= grammar minimum {w.min_depth} but constructing decider/representation raised {e!r}; grammar {spec_str(case['spec'])}",
            )
            return
        rec.sample({"spec": spec_str(case["spec"]), "rep": rep, "decider": case["decider"], "max_depth": d, "ops": case["ops"]})

        def obs(ev, w):
            if ev.exc is not None:
                rec.fail(
                    f"C03/feasible-limit-failed/{rep}/{exc_bucket(ev.exc)}",
                    f"{ev.op} with max_depth {d} >= grammar minimum {w.min_depth} raised {ev.exc!r} ({rep}, decider {case['decider']}); grammar {spec_str(case['spec'])}",
                )
                return
            for i in ev.outputs:
                try:
                    p = w.phenotype(i)
                except Exception as e:  # noqa: BLE001
                    rec.fail(
                        f"C03/feasible-limit-failed/{rep}/{exc_bucket(e)}",
                        f"mapping after {ev.op} with max_depth {d} >= grammar minimum {w.min_depth} raised {e!r} ({rep}, decider {case['decider']}); grammar {spec_str(case['spec'])}",
                    )
                    continue
                _judge_depth(rec, rep, case, w, p, ev.kind, d, self.exp)
            if ev.kind == "map":
                _judge_depth(rec, rep, case, w, ev.extra["phenotype"], "map", d, self.exp)

        w.run(obs)


class DepthOpsExpansion(DepthOps):
    name = "depth_ops_expansion_mode"
    flags = Flags(class_fields_only=True, expansion=True, lists=False, bare_lists=False, tuples=False, unions=False, refined=False, standalone_concretes=True)
    reps = ("tree", "ge", "sge")
    exp = True

    def budget(self, tier):
        return (80, 3) if tier == "quick" else (400, 8)


class BelowMinimum(Facet):
    name = "below_minimum_rejected_upfront"
    flags = FLAGS

    def budget(self, tier):
        return (80, 3) if tier == "quick" else (400, 8)

    def strategy(self, tier):
        return st.builds(
            lambda spec, rep, dec, below, seed: {"spec": spec, "rep": rep, "decider": dec, "below": below, "seed": seed, "depth_extra": 0, "ops": []},
            specs(self.flags),
            st.sampled_from(["tree", "ge", "sge", "dsge"]),
            st.sampled_from(DECIDERS),
            st.integers(1, 3),
            st.integers(0, 2**31),
        )

    def run(self, case, rec):
        w = World(case)
        try:
            if not w.productive():
                rec.discard()
                return
            d = w.min_depth - case["below"]
            if d < 0:
                d = 0
            if d >= w.min_depth:
                rec.discard()
                return
            w.max_depth = d
            rep = case["rep"]
            rec.label("rep:" + rep, "decider:" + case["decider"])
            rec.sample({"spec": spec_str(case["spec"]), "rep": rep, "max_depth": d, "grammar_min": w.min_depth})
            rec.nontrivial((rep, case["decider"], case["spec"], d))
            n0 = w.random.calls()
            try:
                w.build()
                g = w.rep.create_genotype(w.random)
                n0 = w.random.calls() if rep in ("ge", "sge") else n0  # drawing the genes is not synthesis
                p = w.rep.genotype_to_phenotype(g)
            except Exception as e:  # noqa: BLE001
                drew = w.random.calls() - n0
                if not is_library_error(e):
                    rec.fail(
                        f"C03/below-minimum/{rep}/foreign-error/{exc_bucket(e)}",
                        f"max_depth {d} < grammar minimum {w.min_depth}: raised foreign {e!r} ({rep}, {case['decider']}); grammar {spec_str(case['spec'])}",
                    )
                elif drew > 0:
                    rec.fail(
                        f"C03/below-minimum/{rep}/rejected-midway",
                        f"max_depth {d} < grammar minimum {w.min_depth}: library error {e!r} only after {drew} random draws (synthesis had started); grammar {spec_str(case['spec'])}",
                    )
                return
            rec.fail(
                f"C03/below-minimum/{rep}/accepted",
                f"max_depth {d} < grammar minimum {w.min_depth} was accepted and produced {canon_str(canon(p, w.info))} of depth {depth(p, w.info)}; grammar {spec_str(case['spec'])}",
            )
        finally:
            w.cleanup()


class FrontierExhaustive(Facet):
    """All decision paths of tree creation at the frontier (k in {0,1})."""

    name = "frontier_all_paths"
    flags = Flags(finite_choice=True, max_concrete=5, max_fields=2, max_list_size=2, tuples=True, unions=True, floats=False)

    def budget(self, tier):
        return (25, 4) if tier == "quick" else (100, 16)

    def strategy(self, tier):
        cap = 1500 if tier == "quick" else 20000
        return st.builds(
            lambda spec, dec, k: {"spec": spec, "rep": "tree", "decider": dec, "depth_extra": k, "seed": 0, "ops": [], "cap": cap},
            specs(self.flags),
            st.sampled_from(DECIDERS),
            st.sampled_from([0, 0, 1]),
        )

    def run(self, case, rec):
        w = World(case)
        try:
            if not w.productive():
                rec.discard()
                return
            d = w.max_depth
            info = w.info
            rec.label("decider:" + case["decider"], f"k={case['depth_extra']}")

            def run(src):
                dec = w.make_decider(src)
                rep = w.make_rep(dec, "tree")
                return rep.create_genotype(src)

            n = 0
            complete = False
            try:
                gen = enumerate_all(run, case["cap"], max_width=64)
                while True:
                    try:
                        trace, p, exc = next(gen)
                    except StopIteration as s:
                        complete = bool(s.value)
                        break
                    n += 1
                    if exc is not None:
                        rec.fail(
                            f"C03/feasible-limit-failed/tree/{exc_bucket(exc)}",
                            f"tree creation (decider {case['decider']}, max_depth {d} >= min {w.min_depth}) raised {exc!r} on decision path {[t[2] for t in trace]}; grammar {spec_str(case['spec'])}",
                        )
                        continue
                    dep = safe_depth(p, info)
                    if dep > d:
                        rec.fail(
                            f"C03/depth-exceeded/tree/{case['decider']}/create",
                            f"decision path {[t[2] for t in trace]} (decider {case['decider']}, max_depth {d}) gives depth {dep}: {canon_str(safe_canon(p, info))}; grammar {spec_str(case['spec'])}",
                        )
                    if dep == d:
                        rec.nontrivial(("tree", case["decider"], safe_canon(p, info)))
            except Unbounded:
                rec.discard()
                return
            rec.label("paths-complete" if complete else "paths-truncated")
            rec.stats.labels["paths"] += n
            rec.sample({"spec": spec_str(case["spec"]), "decider": case["decider"], "max_depth": d, "paths": n, "complete": complete})
        finally:
            w.cleanup()


DEEP_SPEC = {
    "abstracts": [{"name": "A0", "parent": None, "style": "decorator"}],
    "concretes": [
        {"name": "C0", "parent": "A0", "weight": None, "fields": [["f0", ["ref", "C1"]]]},
        {"name": "C1", "parent": None, "weight": None, "fields": [["f0", ["ref", "C2"]]]},
        {"name": "C2", "parent": None, "weight": None, "fields": [["f0", ["ref", "C3"]]]},
        {"name": "C3", "parent": None, "weight": None, "fields": [["f0", ["ref", "C4"]]]},
        {"name": "C4", "parent": None, "weight": None, "fields": []},
    ],
    "start": "A0",
    "expansion": False,
    "considered": ["A0", "C0", "C1", "C2", "C3", "C4"],
}


class Initializers(Facet):
    """Depth-taking initialisers on the tree representation: full, position-independent grow and
    ramped half-and-half, optionally as an object that was used before on ANOTHER grammar (one
    whose minimum depth is 5, so that small limits are rejected there)."""

    name = "initializers"
    flags = FLAGS

    def budget(self, tier):
        return (80, 3) if tier == "quick" else (400, 8)

    def strategy(self, tier):
        return st.builds(
            lambda spec, init, k, seed, n, reuse: {"spec": spec, "rep": "tree", "decider": "maxdepth", "init": init, "depth_extra": k, "seed": seed, "n": n, "ops": [], "reuse": reuse},
            specs(self.flags),
            st.sampled_from(["full", "pigrow", "ramped"]),
            st.sampled_from([0, 0, 1, 2, 3]),
            st.integers(0, 2**31),
            st.integers(1, 6),
            st.booleans(),
        )

    def run(self, case, rec):
        from geneticengine.problems import SingleObjectiveProblem

        w = World(case)
        other = None
        try:
            if not w.productive():
                rec.discard()
                return
            d = w.max_depth
            try:
                w.build()
            except Exception:  # noqa: BLE001
                rec.discard()
                return
            kind = {"pigrow-full-half": "pigrow"}.get(case["init"], case["init"])
            rec.label("init:" + kind, f"k={case['depth_extra']}", "reused-object" if case.get("reuse") else "fresh-object")
            init = w.initializer(kind)
            problem = SingleObjectiveProblem(lambda p: 0.0)
            if case.get("reuse"):
                # the same initialiser object, first on another grammar (whatever happens there)
                other = World({"spec": DEEP_SPEC, "rep": "tree", "decider": "maxdepth", "depth_extra": 1, "seed": case["seed"], "ops": []})
                try:
                    other.build()
                    list(init.initialize(problem, other.rep, other.random, 2))
                except Exception:  # noqa: BLE001
                    pass
            name = type(init).__name__
            try:
                inds = list(init.initialize(problem, w.rep, w.random, case["n"]))
            except Exception as e:  # noqa: BLE001
                rec.fail(
                    f"C03/feasible-limit-failed/initializer-{kind}/{exc_bucket(e)}",
                    f"{name}(max_depth={d} >= min {w.min_depth}) raised {e!r}{' (object used before on another grammar)' if case.get('reuse') else ''}; grammar {spec_str(case['spec'])}",
                )
                return
            rec.sample({"spec": spec_str(case["spec"]), "init": name, "max_depth": d, "reused": bool(case.get("reuse"))})
            for pos, ind in enumerate(inds):
                p = ind.get_phenotype()
                dep = safe_depth(p, w.info)
                if dep > d:
                    # PositionIndependentGrowInitializer yields target//2 programs of its GrowInitializer
                    # first, then the rest from its FullInitializer (whose overshoot is a recorded finding)
                    half = "" if kind != "pigrow" else ("/grow-half" if pos < case["n"] // 2 else "/full-half")
                    rec.fail(
                        f"C03/depth-exceeded/initializer-{kind}{half}",
                        f"{name}(max_depth={d}){' (object used before on another grammar)' if case.get('reuse') else ''} produced depth {dep}: {canon_str(safe_canon(p, w.info))}; grammar {spec_str(case['spec'])}",
                    )
                if dep == d:
                    rec.nontrivial((f"init-{kind}", safe_canon(p, w.info)))
        finally:
            w.cleanup()
            if other is not None:
                other.cleanup()


class MutationChains(DepthOps):
    """One lineage mutated again and again under the same limit (also with a production as
    start symbol): the limit must stay usable after ANY sequence of mutations."""

    name = "mutation_chains"
    reps = ("tree", "ge", "dsge")

    def budget(self, tier):
        return (60, 6) if tier == "quick" else (400, 16)

    def strategy(self, tier):
        fl = self.flags.replace(concrete_start="always", min_extra_concrete=2, bare_lists=False, max_list_size=2)
        fl2 = self.flags
        base = st.one_of(
            world_cases(fl, reps=self.reps, deciders=("maxdepth", "full"), max_ops=1, depth_extras=(0, 1, 2, 3)),
            world_cases(fl2, reps=self.reps, deciders=("maxdepth", "full", "pigrow"), max_ops=1, depth_extras=(0, 1, 2, 3)),
        )
        return st.builds(lambda c, n, x: {**c, "ops": [["create"], ["create"]] + [["mutate", -1]] * n + ([["crossover", -1, 0]] if x else []) + [["mutate", -1]] * 2}, base, st.integers(3, 12), st.booleans())


class AfterBacktracking(Facet):
    """Grammars whose dependent refinements make a production infeasible in some contexts (creation
    then backtracks to another production). After a history of operations on such a grammar, depth-
    limited creation at the minimum depth and one above is compared with the same creation (same
    decider, same seed) on a freshly materialised, unused copy of the grammar: where the fresh copy
    yields a program, the used one must too - whatever the earlier operations did must not make a
    feasible limit fail midway."""

    name = "feasible_limit_after_backtracking_history"
    flags = Flags(dependent=True, infeasible=True, user_mh=True, max_concrete=6, concrete_start=True)

    def budget(self, tier):
        return (60, 4) if tier == "quick" else (400, 16)

    def strategy(self, tier):
        return world_cases(self.flags, reps=("tree", "ge", "dsge"), deciders=("maxdepth", "pigrow", "full"), max_ops=8, depth_extras=(0, 0, 1, 2), with_map=True)

    def run(self, case, rec):
        from geneticengine.random.sources import NativeRandomSource

        w = World(case)
        twin = None
        try:
            if not w.productive():
                rec.discard()
                return
            try:
                w.build()
            except Exception:  # noqa: BLE001
                rec.discard()
                return
            backtracked = {"n": 0}

            def obs(ev, w_):
                if ev.exc is not None:
                    backtracked["n"] += 1
                    return
                # whatever backtracking went on inside: a program that IS produced respects the limit
                for i in ev.outputs:
                    try:
                        p = w_.phenotype(i)
                    except Exception:  # noqa: BLE001
                        continue
                    dep = safe_depth(p, w_.info)
                    if dep > w_.max_depth:
                        rec.fail(
                            f"C03/depth-exceeded/{case['rep']}/infeasible-contexts/{ev.kind if ev.kind in ('mutate', 'crossover') else 'create'}",
                            f"{ev.kind} ({case['rep']}, decider {case['decider']}, max_depth {w_.max_depth}, grammar min {w_.min_depth}) on a grammar with infeasible contexts: program of depth {dep}: {canon_str(safe_canon(p, w_.info))}; grammar {spec_str(case['spec'])}",
                        )

            w.run(obs)
            twin = World(case)
            rec.label("rep:" + case["rep"], "history-with-failures" if backtracked["n"] else "history-without-failures")
            rec.sample({"spec": spec_str(case["spec"]), "rep": case["rep"], "ops": case["ops"]}, limit=2)
            for d in (w.min_depth, w.min_depth + 1):
                for kind in ("maxdepth", "full", "pigrow"):
                    for seed in range(3):
                        res = []
                        for ww in (twin, w):
                            src = NativeRandomSource(seed)
                            try:
                                p = ww.make_rep(ww.make_decider(src, kind, d), "tree").create_genotype(src)
                                res.append(("ok", safe_depth(p, ww.info), None))
                            except Exception as e:  # noqa: BLE001
                                res.append(("exc", None, e))
                        (t_kind, t_dep, _), (u_kind, u_dep, u_exc) = res
                        if t_kind == "ok":
                            rec.nontrivial((spec_str(case["spec"]), d, kind, seed))
                        if t_kind == "ok" and u_kind == "exc":
                            rec.fail(
                                f"C03/feasible-limit-failed/after-earlier-operations/{exc_bucket(u_exc)}",
                                f"{kind} creation (seed {seed}, max_depth {d}, grammar minimum {w.min_depth}) succeeds on a fresh copy of the grammar but raised {u_exc!r} on the grammar object that had been used for {case['ops']} ({case['rep']}); grammar {spec_str(case['spec'])}",
                            )
                            return
                        if u_kind == "ok" and u_dep > d:
                            rec.fail(
                                f"C03/depth-exceeded/after-earlier-operations/{kind}",
                                f"{kind} creation (seed {seed}, max_depth {d}) on a used grammar produced depth {u_dep}; grammar {spec_str(case['spec'])}",
                            )
                            return
        finally:
            w.cleanup()
            if twin is not None:
                twin.cleanup()


FACETS = [DepthOps(), DepthOpsExpansion(), BelowMinimum(), FrontierExhaustive(), Initializers(), MutationChains(), AfterBacktracking()]
