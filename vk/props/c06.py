"""C06 — crossover recombines parental material; point mutation is local."""
from __future__ import annotations

from hypothesis import strategies as st

from vk.core import Facet
from vk.refmodel import canon, canon_nodes, canon_str, well_typed
from vk.sources import ScriptedSource, Unbounded, enumerate_collect
from vk.spec import BASES, Flags, spec_str
from vk.world import World, world_cases

LEVEL = "exploration"
RULE = (
    "Hypothesis draws a grammar, a representation, a gene length (1..256), a seed and a sequence of create/mutate/crossover "
    "operations, so parents are genotypes the representation itself created or derived. Linear (GE, stack): child has the "
    "parents' length and every locus holds the gene of one parent at that locus; structured (SGE, dSGE): every (key, index) gene "
    "of a child equals a parent's gene at the same (key, index); mutation: same shape, Hamming distance <= 1. GE crossover is "
    "additionally run for EVERY cut point for gene lengths <= 16. Tree: the child must equal parent 1 with the value at one "
    "position replaced by a value occurring in parent 2 that is well-typed for the declared type at that position (searched "
    "over all positions on the divergence path and all sub-values of parent 2). Non-trivial = parents with different "
    "genes/canonical programs (tree: >= 3 nodes); distinct by hash of (representation, parents)."
)
ASSUMPTIONS = [
    "a child identical to its base parent is accepted (a subtree replaced by an equal one cannot be told apart)",
    "any value position (node, list, base value) counts as a replaceable subtree; only 'material from the other parent, well-typed at that position' is required",
    "dSGE genotypes are compared on their dna dicts; the attached random source is not part of the genotype's shape",
]


# ---- genotype views ---------------------------------------------------------------------
def genes_view(rep, g):
    """Neutral view of a genotype: dict key -> tuple of genes (linear: single key)."""
    if rep in ("ge", "stack"):
        return {"_": tuple(g.dna)}
    return {repr(k): tuple(v) for k, v in g.dna.items()}


def hamming(a, b):
    if set(a) != set(b):
        return None
    d = 0
    for k in a:
        if len(a[k]) != len(b[k]):
            return None
        d += sum(1 for x, y in zip(a[k], b[k]) if x != y)
    return d


class LinearStructured(Facet):
    name = "linear_structured_operators"
    reps = ("ge", "sge", "dsge", "stack")

    def budget(self, tier):
        return (80, 6) if tier == "quick" else (800, 16)

    def strategy(self, tier):
        fl = Flags(dependent=False, user_mh=False, max_concrete=5)
        return world_cases(fl, reps=self.reps, deciders=("maxdepth", "pigrow"), max_ops=10, depth_extras=(1, 2, 3), with_map=True)

    def run(self, case, rec):
        w = World(case)
        try:
            self._run(case, rec, w)
        finally:
            w.cleanup()

    def _run(self, case, rec, w):
        rep = case["rep"]
        if not w.productive():
            rec.discard()
            return
        try:
            w.build()
        except Exception:  # noqa: BLE001
            rec.discard()
            return
        rec.label("rep:" + rep, f"gene_length:{case['gene_length']}")
        snap = {}
        made = []  # (parent index, child index, the parent's genes when the child was made)
        import copy as _copy

        def view(i):
            return genes_view(rep, w.pool[i])

        def obs(ev, w):
            if ev.exc is not None:
                rec.discard()
                return
            if rep == "dsge" and ev.kind == "create":
                for i in ev.outputs:  # a dSGE genotype is empty until it has been mapped once
                    try:
                        w.phenotype(i)
                    except Exception:  # noqa: BLE001
                        pass
            if ev.kind == "mutate":
                # parent view taken before? the parent may legally grow in dSGE mapping only;
                # compare with the snapshot taken when the parent entered the pool / was last mapped
                p = view(ev.inputs[0])
                c = view(ev.outputs[0])
                if rep == "dsge":
                    # shape = key set and lengths of the parent at mutation time
                    pass
                h = hamming(p, c)
                if h is None:
                    rec.fail(f"C06/mutation/{rep}/shape-changed", f"mutation changed the genotype's shape: parent keys/lengths {_shape(p)} -> child {_shape(c)}; grammar {spec_str(case['spec'])}")
                elif h > 1:
                    rec.fail(f"C06/mutation/{rep}/more-than-one-gene", f"mutation changed {h} genes (parent {_short(p)}, child {_short(c)})")
                rec.label(f"mutate@{rep}:hamming={h if h is None or h < 2 else '2+'}")
                if h:
                    rec.nontrivial((rep, "mut", _short(p), _short(c)))
                made.append((ev.inputs[0], ev.outputs[0], _copy.deepcopy(p)))
            elif ev.kind == "crossover":
                p1, p2 = view(ev.inputs[0]), view(ev.inputs[1])
                for which, oi in enumerate(ev.outputs):
                    c = view(oi)
                    base = p1 if which == 0 else p2
                    self.judge_child(rec, rep, c, base, p1, p2, case)
                if p1 != p2:
                    rec.nontrivial((rep, "xo", _short(p1), _short(p2)))
                if rep == "dsge":
                    for oi in ev.outputs:
                        try:
                            w.phenotype(oi)
                        except Exception:  # noqa: BLE001
                            pass
            elif ev.kind == "map":
                snap[ev.inputs[0]] = view(ev.inputs[0])
            # a mutant stays what it was: whatever happens later to its parent, its siblings or itself
            # being used as a parent, it still differs from the genes its parent had in at most one locus
            if rep != "dsge":
                for pi, ci, p0 in made:
                    h2 = hamming(p0, view(ci))
                    if h2 is None or h2 > 1:
                        rec.fail(
                            f"C06/mutation/{rep}/earlier-mutant-changed-by-a-later-operation",
                            f"after {ev.op}: genotype #{ci}, made by mutating #{pi}, now differs from its parent's genes at that time in {h2} loci (a later operation wrote into gene lists it shares); grammar {spec_str(case['spec'])}",
                        )
                        return

        rec.sample({"spec": spec_str(case["spec"]), "rep": rep, "gene_length": case["gene_length"], "ops": case["ops"]})
        w.run(obs)

    @staticmethod
    def judge_child(rec, rep, c, base, p1, p2, case):
        if rep in ("ge", "stack"):
            if len(c["_"]) != len(base["_"]):
                rec.fail(f"C06/crossover/{rep}/length-changed", f"child length {len(c['_'])} != parent length {len(base['_'])}")
                return
            for i, gene in enumerate(c["_"]):
                ok = (i < len(p1["_"]) and gene == p1["_"][i]) or (i < len(p2["_"]) and gene == p2["_"][i])
                if not ok:
                    rec.fail(f"C06/crossover/{rep}/gene-from-neither-parent", f"child gene {gene} at locus {i} comes from neither parent at that locus ({p1['_'][i:i+1]}, {p2['_'][i:i+1]})")
                    return
        else:
            for k, genes in c.items():
                for i, gene in enumerate(genes):
                    ok = (k in p1 and i < len(p1[k]) and p1[k][i] == gene) or (k in p2 and i < len(p2[k]) and p2[k][i] == gene)
                    if not ok:
                        rec.fail(f"C06/crossover/{rep}/gene-from-neither-parent", f"child gene {gene} at ({k},{i}) comes from neither parent at that locus")
                        return
            if rep == "sge" and set(c) != set(base):
                rec.fail(f"C06/crossover/{rep}/key-set-changed", f"child keys {sorted(c)} != parent keys {sorted(base)}")


def _shape(v):
    return {k: len(x) for k, x in v.items()}


def _short(v):
    s = repr(v)
    return s if len(s) < 200 else s[:197] + "..."


class OperatorSteps(Facet):
    """The operators as the GP pipeline calls them: GenericMutationStep / GenericCrossoverStep applied
    to a population of freshly created individuals, with a target size below, at or ABOVE the size
    of the incoming population (a growing population, a step placed first in a custom pipeline) and
    a probability that may be < 1. Every individual the mutation step yields must carry a genotype
    at Hamming distance <= 1 from the genotype of SOME incoming individual; every individual the
    crossover step yields must be an incoming individual or satisfy the crossover relation for some
    ordered pair of incoming individuals."""

    name = "operator_steps_on_populations"
    reps = ("ge", "sge", "stack")

    def budget(self, tier):
        return (60, 4) if tier == "quick" else (500, 8)

    def strategy(self, tier):
        fl = Flags(dependent=False, user_mh=False, max_concrete=5)
        return st.builds(
            lambda c, step, n, extra, prob: {**c, "ops": [], "step": step, "n": n, "target": max(1, n + extra), "prob": prob},
            world_cases(fl, reps=self.reps, deciders=("maxdepth",), max_ops=1, depth_extras=(1, 2, 3), with_map=False),
            st.sampled_from(["mutation", "mutation", "crossover"]),
            st.integers(1, 6),
            st.integers(-3, 9),
            st.sampled_from([1.0, 1.0, 0.5, 0.9]),
        )

    def run(self, case, rec):
        w = World(case)
        try:
            self._run(case, rec, w)
        finally:
            w.cleanup()

    def _run(self, case, rec, w):
        from geneticengine.algorithms.gp.operators.crossover import GenericCrossoverStep
        from geneticengine.algorithms.gp.operators.mutation import GenericMutationStep
        from geneticengine.evaluation.sequential import SequentialEvaluator
        from geneticengine.problems import SingleObjectiveProblem
        from geneticengine.solutions.individual import Individual

        rep = case["rep"]
        if not w.productive():
            rec.discard()
            return
        try:
            w.build()
            pop = [Individual(w.rep.create_genotype(w.random), w.rep) for _ in range(case["n"])]
        except Exception:  # noqa: BLE001
            rec.discard()
            return
        n, target = case["n"], case["target"]
        if case["step"] == "crossover" and (n < 2 or target > n or target // 2 >= n):
            # the crossover step pairs neighbours (j, j + 1): it is documented for populations at least as
            # large as the target; smaller ones are outside its domain (IndexError)
            target = max(1, min(target, n - 1))
            if n < 2:
                rec.discard()
                return
        before = [genes_view(rep, i.genotype) for i in pop]
        step = GenericMutationStep(case["prob"]) if case["step"] == "mutation" else GenericCrossoverStep(case["prob"])
        problem = SingleObjectiveProblem(lambda p: 0.0)
        rec.label("step:" + case["step"], "target:" + ("above" if target > n else "at" if target == n else "below"), "rep:" + rep)
        rec.sample({"spec": spec_str(case["spec"]), "rep": rep, "step": case["step"], "n": n, "target": target, "prob": case["prob"]}, limit=3)
        try:
            out = list(step.apply(problem, SequentialEvaluator(), w.rep, w.random, iter(list(pop)), target, 0))
        except Exception as e:  # noqa: BLE001
            rec.discard()
            rec.label("discarded:" + type(e).__name__)
            return
        after = [genes_view(rep, i.genotype) for i in pop]
        if after != before:
            rec.fail(f"C06/step/{case['step']}/{rep}/incoming-individual-changed", f"the {case['step']} step changed the genes of an incoming individual (before {_short(before)}, after {_short(after)})")
            return
        changed = 0
        for k, ind in enumerate(out):
            c = genes_view(rep, ind.genotype)
            if case["step"] == "mutation":
                hs = [hamming(b, c) for b in before]
                best = min((h for h in hs if h is not None), default=None)
                if best is None or best > 1:
                    rec.fail(
                        f"C06/step/mutation/{rep}/offspring-not-a-point-mutant-of-any-incoming-individual",
                        f"GenericMutationStep({case['prob']}) on {n} individuals with target_size {target}: offspring #{k} differs from the closest incoming individual in {best} genes (distances {hs}); grammar {spec_str(case['spec'])}",
                    )
                    return
                changed += 1 if best else 0
            else:
                if c in before:
                    continue
                ok = False
                for p1 in before:
                    for p2 in before:
                        probe = _Probe()
                        LinearStructured.judge_child(probe, rep, c, p1, p1, p2, case)
                        if not probe.failed:
                            ok = True
                            break
                    if ok:
                        break
                if not ok:
                    rec.fail(
                        f"C06/step/crossover/{rep}/offspring-not-a-recombination-of-any-incoming-pair",
                        f"GenericCrossoverStep({case['prob']}) on {n} individuals with target_size {target}: offspring #{k} ({_short(c)}) is not a locus-wise recombination of any two incoming individuals; grammar {spec_str(case['spec'])}",
                    )
                    return
                changed += 1
        if changed:
            rec.nontrivial((rep, case["step"], n, target, _short(before)))


class _Probe:
    """Collects judge_child verdicts without reporting them."""

    def __init__(self):
        self.failed = False

    def fail(self, *a, **k):
        self.failed = True


class DsgeCrossoverChains(LinearStructured):
    """dSGE genotypes hold genes only for the symbols their mapping read, so parents differ in their
    key sets; children are mapped (which extends them in place) and crossed over again, several
    times in one process: a gene list handed to a child must be the child's own."""

    name = "dsge_crossover_chains"
    reps = ("dsge",)

    def budget(self, tier):
        return (40, 4) if tier == "quick" else (300, 8)

    def strategy(self, tier):
        fl = Flags(dependent=False, user_mh=False, max_concrete=7, min_extra_concrete=3, max_abstract=3)
        idx = st.integers(0, 30)
        # a crossover is often followed by mutations of its two children (pool positions -1, -2): a
        # child holds an EMPTY gene list for a symbol its donor parent never read
        block = st.one_of(
            st.builds(lambda i, j, n: [["crossover", i, j]] + [["mutate", -1], ["mutate", -2]] * n, idx, idx, st.integers(0, 3)),
            st.builds(lambda i: [["mutate", i]], idx),
            st.just([["create"]]),
        )
        chain = st.lists(block, min_size=3, max_size=8).map(lambda bs: [op for b in bs for op in b])
        return st.builds(
            lambda c, ops: {**c, "ops": [["create"], ["create"], ["create"]] + ops},
            world_cases(fl, reps=self.reps, deciders=("maxdepth",), max_ops=1, depth_extras=(2, 3, 4), with_map=False),
            chain,
        )


class GECrossoverAllCuts(Facet):
    """GE crossover for every outcome of its random draws, gene lengths <= 16."""

    name = "ge_crossover_all_cut_points"

    def budget(self, tier):
        return (100, 1) if tier == "quick" else (500, 8)

    def strategy(self, tier):
        g = st.integers(0, 2**63 - 1)
        return st.integers(1, 16).flatmap(
            lambda n: st.builds(
                lambda a, b, rep: {"n": n, "p1": a, "p2": b, "rep": rep},
                st.lists(g, min_size=n, max_size=n),
                st.lists(g, min_size=n, max_size=n),
                st.sampled_from(["ge", "ge-mutate"]),
            ),
        )

    def run(self, case, rec):
        from geneticengine.representations.grammatical_evolution.ge import Genotype, GrammaticalEvolutionRepresentation

        n = case["n"]
        rep = GrammaticalEvolutionRepresentation(None, None, gene_length=n)
        p1, p2 = Genotype(list(case["p1"])), Genotype(list(case["p2"]))
        rec.label(f"n={n}", case["rep"])
        rec.sample(case)
        if case["rep"] == "ge":
            paths, complete = enumerate_collect(lambda src: rep.crossover(src, p1, p2), 100, max_width=64)
            for trace, res, exc in paths:
                if exc is not None:
                    rec.fail(f"C06/crossover/ge/raised-{type(exc).__name__}", f"crossover raised {exc!r} on draws {[t[2] for t in trace]}")
                    continue
                v1, v2 = {"_": tuple(p1.dna)}, {"_": tuple(p2.dna)}
                for which, c in enumerate(res):
                    LinearStructured.judge_child(rec, "ge", {"_": tuple(c.dna)}, v1 if which == 0 else v2, v1, v2, case)
            if rec.stats.exhaustive is None:
                rec.stats.exhaustive = True
            rec.stats.exhaustive = rec.stats.exhaustive and complete
            if case["p1"] != case["p2"]:
                rec.nontrivial(("ge-all", n, case["p1"], case["p2"]))
        else:
            # mutation: first draw = locus (enumerated), second = new gene (two values)
            for locus in range(n):
                for newgene in (0, 2**63 - 1):
                    class Src(ScriptedSource):
                        def randint(self, lo, hi):
                            i = len(self.trace)
                            v = locus if i == 0 else min(max(newgene, lo), hi)
                            self.trace.append((lo, hi, v))
                            return v

                    c = rep.mutate(Src(), p1)
                    h = hamming({"_": tuple(p1.dna)}, {"_": tuple(c.dna)})
                    if h is None or h > 1:
                        rec.fail("C06/mutation/ge/more-than-one-gene", f"mutation at locus {locus}: hamming {h}")
            rec.nontrivial(("ge-mut-all", n, case["p1"]))


# ---- tree crossover ---------------------------------------------------------------------
def sub_values(v, info, out=None):
    """All sub-values of a program (nodes, lists, tuples, base values) as (canon, value)."""
    out = out if out is not None else []
    out.append((canon(v, info), v))
    if isinstance(v, (list, tuple)):
        for x in v:
            sub_values(x, info, out)
    elif type(v).__name__ in info.fields and type(v) not in (int, float, str, bool):
        for fn, _ in info.fields[type(v).__name__]:
            sub_values(getattr(v, fn), info, out)
    return out


def divergence_path(a, b, t, info):
    """Positions (value_in_a, value_in_b, declared type) from the root down to the lowest
    position containing every difference between programs a and b."""
    path = [(a, b, t)]
    while True:
        a, b, t = path[-1]
        kids = child_positions(a, b, t, info)
        if kids is None:
            return path
        diff = [(x, y, xt) for x, y, xt in kids if canon(x, info) != canon(y, info)]
        if len(diff) != 1:
            return path
        path.append(diff[0])


def child_positions(a, b, t, info):
    """Aligned children of a and b if they have the same constructor/shape, else None."""
    if type(a) is not type(b):
        return None
    if isinstance(a, list):
        if len(a) != len(b):
            return None
        et = _elem_type(t)
        return [(x, y, et) for x, y in zip(a, b)]
    if type(a) is tuple:
        if len(a) != len(b):
            return None
        ts = _tuple_types(t, len(a))
        return [(x, y, xt) for x, y, xt in zip(a, b, ts)]
    name = type(a).__name__
    if name in info.fields and type(a) not in (int, float, str, bool):
        return [(getattr(a, fn), getattr(b, fn), ft) for fn, ft in info.fields[name]]
    return None


def _strip(t):
    while t[0] == "ann":
        t = t[1]
    return t


def _elem_type(t):
    t = _strip(t)
    if t[0] == "list":
        return t[1]
    if t[0] == "union":
        for a in t[1]:
            if _strip(a)[0] == "list":
                return _strip(a)[1]
    return ["union", []]


def _tuple_types(t, n):
    t = _strip(t)
    if t[0] == "tuple" and len(t[1]) == n:
        return t[1]
    return [["union", []]] * n


class TreeCrossover(Facet):
    name = "tree_crossover"

    def budget(self, tier):
        return (80, 6) if tier == "quick" else (600, 16)

    def strategy(self, tier):
        fl = Flags(tuples=False, dependent=False, user_mh=False, max_concrete=6, concrete_start=True)
        return world_cases(fl, reps=("tree",), deciders=("maxdepth", "pigrow", "full"), max_ops=8, depth_extras=(1, 2, 3, 5), with_map=False)

    def run(self, case, rec):
        w = World(case)
        try:
            self._run(case, rec, w)
        finally:
            w.cleanup()

    def _run(self, case, rec, w):
        if not w.productive():
            rec.discard()
            return
        try:
            w.build()
        except Exception:  # noqa: BLE001
            rec.discard()
            return
        info = w.info
        start_t = ["ref", info.start]
        start_kind = "abstract-start" if info.is_abstract(info.start) else "concrete-start"
        rec.label(start_kind)

        def obs(ev, w):
            if ev.exc is not None:
                rec.discard()
                return
            if ev.kind != "crossover":
                return
            p1, p2 = w.pool[ev.inputs[0]], w.pool[ev.inputs[1]]
            for which, oi in enumerate(ev.outputs):
                base, other = (p1, p2) if which == 0 else (p2, p1)
                c = w.pool[oi]
                cc, cb = canon(c, info), canon(base, info)
                if cc == cb:
                    rec.label("child==base-parent")
                    continue
                donors = {}
                for sc, sv in sub_values(other, info):
                    donors.setdefault(sc, sv)
                ok = False
                path = divergence_path(c, base, start_t, info)
                for cv, bv, t in path:
                    k = canon(cv, info)
                    if k in donors and not well_typed(donors[k], t, info):
                        ok = True
                        break
                rec.label("recombination-ok" if ok else "not-a-recombination")
                if canon_nodes(cc) >= 3 and cb != canon(other, info):
                    rec.nontrivial(("tree", cb, canon(other, info)))
                if not ok:
                    rec.fail(
                        f"C06/tree-crossover/{start_kind}/child-contains-material-from-neither-parent",
                        f"child {which + 1} {canon_str(cc)} is not base parent {canon_str(cb)} with one position replaced by a value of the other parent {canon_str(canon(other, info))} (divergence depth {len(path) - 1}); grammar {spec_str(case['spec'])}",
                    )

        rec.sample({"spec": spec_str(case["spec"]), "ops": case["ops"]})
        w.run(obs)


class TreeCrossoverConcreteStart(TreeCrossover):
    """Start symbol = a recursive production: tree crossover then really donates inner subtrees of
    the other parent, and children of one crossover are parents of the next (second-generation
    donors)."""

    name = "tree_crossover_concrete_recursive_start"

    def budget(self, tier):
        return (250, 8) if tier == "quick" else (800, 16)

    def strategy(self, tier):
        fl = Flags(tuples=False, dependent=False, user_mh=False, max_concrete=6, min_extra_concrete=2, concrete_start="always", bare_lists=False, max_list_size=2)
        base = world_cases(fl, reps=("tree",), deciders=("maxdepth", "pigrow"), max_ops=1, depth_extras=(1, 2, 3), with_map=False)
        idx = st.integers(0, 40)
        xs = st.lists(st.builds(lambda i, j: ["crossover", i, j], idx, idx), min_size=4, max_size=14)
        # three fresh parents, then only crossovers: children of one crossover are parents (and donors) of the next
        return st.builds(lambda c, x: {**c, "ops": [["create"], ["create"], ["create"]] + x}, base, xs)


FACETS = [LinearStructured(), DsgeCrossoverChains(), GECrossoverAllCuts(), TreeCrossover(), TreeCrossoverConcreteStart(), OperatorSteps()]
