"""C12 — the reported best individual really is the best one evaluated."""
from __future__ import annotations

import itertools

from hypothesis import strategies as st

from vk.core import Facet
from vk.refmodel import canon, canon_str
from vk.spec import Flags, spec_str, specs
from vk.world import World

LEVEL = "exploration"
RULE = (
    "Facet A enumerates ALL fitness histories over {0,1,2} of length <= 7 (quick) / <= 9 (thorough) x both directions x three "
    "batching patterns and feeds them to SingleObjectiveProgressTracker through a table-driven representation; after every "
    "tracker.evaluate call the reported best must be the reference fold's best (same object: first individual attaining the "
    "optimum so far) and the is_best flags seen by a recorder must be true exactly for the first individual and for strict "
    "improvements. Facet B: Hypothesis histories of ints/floats with ties and plateaus for single- and multi-objective trackers "
    "(2-3 objectives, minimize as list or bool, default or user aggregate): every is_best individual and every member of "
    "get_best_individuals() attains the best aggregate seen so far. Facet C: RS, HC, 1+1 and GP searches on generated grammars "
    "observed through a spy recorder and a spy budget: at every registration the best dominates everything registered, at every "
    "budget check and at return it dominates every fitness-function invocation, and search() returns that individual. "
    "Non-trivial = a history with a tie followed by an improvement; distinct by (history, direction, batching)."
)
ASSUMPTIONS = [
    "direction computed from raw values and minimize, not from the library's aggregate",
    "NaN fitness values are not generated",
    "in searches the tracker is judged against what was registered at register time and against all invocations at budget checks",
]


class TableRep:
    """Representation whose genotype is (index, value); phenotype is the genotype."""

    def create_genotype(self, random, **kw):
        raise NotImplementedError

    def genotype_to_phenotype(self, g):
        return g


def better(a, b, minimize):
    return a < b if minimize else a > b


class SpyRecorder:
    def __init__(self):
        self.events = []

    def register(self, tracker, individual, problem, is_best):
        self.events.append((individual, is_best))


def _mk_recorder():
    from geneticengine.evaluation.recorder import SearchRecorder

    class R(SpyRecorder, SearchRecorder):
        def __init__(self):
            SpyRecorder.__init__(self)

    return R()


BATCH_FORMS = ("list", "generator", "iter", "tuple", "mixed", "lazy")


def as_batch(chunk, form, k=0):
    """tracker.evaluate() takes an Iterable[Individual]: the batch in the given form."""
    if form == "mixed":
        form = ("list", "generator", "iter", "tuple")[k % 4]
    if form == "generator":
        return (x for x in chunk)
    if form == "iter":
        return iter(list(chunk))
    if form == "tuple":
        return tuple(chunk)
    return list(chunk)


def run_single_history(values, minimize, batches, rec, tag, form="list", number_form=None, prescored=False):
    from geneticengine.evaluation.sequential import SequentialEvaluator
    from geneticengine.evaluation.tracker import SingleObjectiveProgressTracker
    from geneticengine.problems import SingleObjectiveProblem
    from geneticengine.solutions.individual import Individual

    from vk.values import as_form

    from vk.values import num

    values = [num(v) for v in values]
    rep = TableRep()
    problem = SingleObjectiveProblem(lambda p: as_form(p[1], number_form), minimize=minimize)
    spy = _mk_recorder()
    tracker = SingleObjectiveProgressTracker(problem, SequentialEvaluator(), recorders=[spy])
    inds = [Individual((i, v), rep) for i, v in enumerate(values)]
    if prescored:
        from vk.values import prescore

        run_single_history.keepalive = prescore(inds, minimize)
    # reference fold
    ref_best = None
    ref_flags = []
    pos = 0
    for b in batches:
        chunk = inds[pos : pos + b]
        if not chunk:
            break
        tracker.evaluate(as_batch(chunk, form, pos))
        for ind in chunk:
            v = ind.genotype[1]
            if ref_best is None or better(v, ref_best.genotype[1], minimize):
                ref_best = ind
                ref_flags.append(True)
            else:
                ref_flags.append(False)
        pos += len(chunk)
        got = tracker.get_best_individual()
        if got is not ref_best:
            gv = got.genotype if got is not None else None
            if got is None or better(ref_best.genotype[1], got.genotype[1], minimize):
                rec.fail(
                    f"C12/single/{tag}/best-is-not-the-best-evaluated",
                    f"history {values} (minimize={minimize}, batches {batches}): after {pos} evaluations best reported {gv}, but {ref_best.genotype} is strictly better",
                )
            else:
                rec.fail(
                    f"C12/single/{tag}/best-replaced-on-tie",
                    f"history {values} (minimize={minimize}, batches {batches}): after {pos} evaluations best reported {gv}, reference (first to attain the optimum) {ref_best.genotype}",
                )
            return
    flags = [f for _, f in spy.events]
    order = [i.genotype[0] for i, _ in spy.events]
    if order != list(range(pos)):
        rec.fail(f"C12/single/{tag}/registrations-missing-or-reordered", f"history {values}: registered indices {order}")
        return
    if flags != ref_flags[:pos]:
        k = next(i for i, (a, b) in enumerate(zip(flags, ref_flags)) if a != b)
        rec.fail(
            f"C12/single/{tag}/is_best-flag-wrong",
            f"history {values} (minimize={minimize}): is_best flags {flags}, expected {ref_flags[:pos]} (first difference at #{k}: value {values[k]})",
        )


def run_lazy_history(values, minimize, batches, rec, tag, number_form=None):
    """The batch is produced on the fly: `tracker.evaluate(Individual(g, rep) for g in genotypes)`, and
    neither the harness nor its recorder keeps a reference to an individual (a CSV recorder does not
    either), so an individual that does not become the best is freed before the next one exists.
    Judged by value and position."""
    from geneticengine.evaluation.recorder import SearchRecorder
    from geneticengine.evaluation.sequential import SequentialEvaluator
    from geneticengine.evaluation.tracker import SingleObjectiveProgressTracker
    from geneticengine.problems import SingleObjectiveProblem
    from geneticengine.solutions.individual import Individual

    from vk.values import as_form, num

    values = [num(v) for v in values]
    rep = TableRep()
    problem = SingleObjectiveProblem(lambda p: as_form(p[1], number_form), minimize=minimize)
    events = []

    class Light(SearchRecorder):
        def register(self, tracker, individual, problem, is_best):
            events.append((individual.genotype[0], bool(is_best)))

    tracker = SingleObjectiveProgressTracker(problem, SequentialEvaluator(), recorders=[Light()])
    ref_best = None
    ref_flags = []
    pos = 0
    for b in batches:
        chunk = list(enumerate(values))[pos : pos + b]
        if not chunk:
            break
        tracker.evaluate(Individual(g, rep) for g in chunk)
        for i, v in chunk:
            if ref_best is None or better(v, ref_best[1], minimize):
                ref_best = (i, v)
                ref_flags.append(True)
            else:
                ref_flags.append(False)
        pos += len(chunk)
        got = tracker.get_best_individual()
        gg = tuple(got.genotype) if got is not None else None
        if gg != ref_best:
            if got is None or better(ref_best[1], gg[1], minimize):
                rec.fail(
                    f"C12/single/{tag}/best-is-not-the-best-evaluated",
                    f"history {values} (minimize={minimize}, batches {batches}, individuals created on the fly): after {pos} evaluations best reported {gg}, but {ref_best} is strictly better",
                )
            else:
                rec.fail(
                    f"C12/single/{tag}/best-replaced-on-tie",
                    f"history {values} (minimize={minimize}, batches {batches}, individuals created on the fly): after {pos} evaluations best reported {gg}, reference (first to attain the optimum) {ref_best}",
                )
            return
    if [i for i, _ in events] != list(range(pos)):
        rec.fail(f"C12/single/{tag}/registrations-missing-or-reordered", f"history {values} (individuals created on the fly): registered indices {[i for i, _ in events]}")
        return
    flags = [f for _, f in events]
    if flags != ref_flags[:pos]:
        k = next(i for i, (a, b) in enumerate(zip(flags, ref_flags)) if a != b)
        rec.fail(
            f"C12/single/{tag}/is_best-flag-wrong",
            f"history {values} (minimize={minimize}, individuals created on the fly): is_best flags {flags}, expected {ref_flags[:pos]} (first difference at #{k}: value {values[k]})",
        )


def _nontrivial_history(values, minimize):
    """a tie followed by an improvement"""
    best = None
    tie = False
    for v in values:
        v = float(v) if isinstance(v, str) else v
        if best is None:
            best = v
        elif v == best:
            tie = True
        elif better(v, best, minimize):
            if tie:
                return True
            best = v
    return False


class ExhaustiveSingle(Facet):
    name = "single_objective_all_histories"
    enumerative = True

    def budget(self, tier):
        return (0, 2) if tier == "quick" else (0, 16)

    def cases(self, tier, shard, nshards):
        maxlen = 7 if tier == "quick" else 9
        n = 0
        for length in range(1, maxlen + 1):
            for values in itertools.product((0, 1, 2), repeat=length):
                n += 1
                if n % nshards != shard:
                    continue
                for minimize in (False, True):
                    yield {"values": list(values), "minimize": minimize}

    def run(self, case, rec):
        values, minimize = case["values"], case["minimize"]
        n = len(values)
        patterns = [[1] * n, [n], [2, 3] * n]
        for b in patterns:
            run_single_history(values, minimize, b, rec, "exhaustive")
        if rec.stats.exhaustive is None:
            rec.stats.exhaustive = True
        if _nontrivial_history(values, minimize):
            rec.nontrivial((values, minimize))
        rec.sample(case, limit=2)


class RandomHistories(Facet):
    name = "tracker_histories_generated"

    def budget(self, tier):
        return (300, 2) if tier == "quick" else (1500, 16)

    def strategy(self, tier):
        from vk.values import NUMBER_FORMS, exact_int_values, single_objective_values

        val = single_objective_values(infinities=True)
        single = st.builds(
            lambda vs, m, bs, fm, nf: {"kind": "single", "values": vs, "minimize": m, "batches": bs, "form": fm, "number_form": nf},
            st.lists(val, min_size=1, max_size=12),
            st.booleans(),
            st.lists(st.integers(1, 5), min_size=12, max_size=12),
            st.sampled_from(BATCH_FORMS),
            st.sampled_from(NUMBER_FORMS),
        )
        nobj = st.integers(2, 3)
        multi = nobj.flatmap(
            lambda k: st.builds(
                lambda vs, m, agg, bs, fm, tr: {"kind": "multi", "values": vs, "minimize": m, "aggregate": agg, "batches": bs, "form": fm, "tracker": tr},
                st.lists(st.lists(exact_int_values(-2, 2), min_size=k, max_size=k), min_size=1, max_size=10),
                st.one_of(st.booleans(), st.lists(st.booleans(), min_size=k, max_size=k)),
                st.sampled_from(["default", "first", "sum", "neg-last"]),
                st.lists(st.integers(1, 4), min_size=10, max_size=10),
                st.sampled_from(BATCH_FORMS),
                st.sampled_from(["multi", "multi", "single"]),
            ),
        )
        return st.one_of(single, multi)

    def run(self, case, rec):
        rec.label("kind:" + case["kind"])
        rec.sample(case, limit=2)
        if case["kind"] == "single":
            if case.get("form") == "lazy":
                run_lazy_history(case["values"], case["minimize"], case["batches"], rec, "generated", case.get("number_form"))
            else:
                run_single_history(case["values"], case["minimize"], case["batches"], rec, "generated", case.get("form", "list"), case.get("number_form"), len(case["values"]) % 3 == 2)
            if _nontrivial_history(case["values"], case["minimize"]):
                rec.nontrivial(case)
            return
        self.run_multi(case, rec)

    def run_multi(self, case, rec):
        from geneticengine.evaluation.sequential import SequentialEvaluator
        from geneticengine.evaluation.tracker import MultiObjectiveProgressTracker
        from geneticengine.problems import MultiObjectiveProblem
        from geneticengine.solutions.individual import Individual

        values, minimize, agg = case["values"], case["minimize"], case["aggregate"]
        k = len(values[0])
        mins = minimize if isinstance(minimize, list) else [minimize] * k
        user = {"default": None, "first": lambda xs: xs[0], "sum": lambda xs: sum(xs), "neg-last": lambda xs: -xs[-1]}[agg]

        def ref_agg(xs):
            if user is not None:
                return user([float(x) for x in xs])
            return sum((-x if m else x) for x, m in zip(xs, mins))

        rec.label("aggregate:" + agg, "minimize:" + ("list" if isinstance(minimize, list) else "bool"))
        problem = MultiObjectiveProblem(minimize if not isinstance(minimize, list) else list(minimize), lambda p: list(p[1]), aggregate_fitness=user)
        spy = _mk_recorder()
        rep = TableRep()
        inds = [Individual((i, tuple(v)), rep) for i, v in enumerate(values)]
        if case.get("tracker") == "single":
            # the single-best tracker (the one random search, hill climbing and (1+1) return from) on a
            # multi-objective problem: "better" is the problem's aggregate comparison and nothing else
            from geneticengine.evaluation.tracker import SingleObjectiveProgressTracker

            rec.label("single-best-tracker-on-multi-objective-problem")
            tracker = SingleObjectiveProgressTracker(problem, SequentialEvaluator(), recorders=[spy])
            pos, ref_best, exp_flags = 0, None, []
            for b in case["batches"]:
                chunk = inds[pos : pos + b]
                if not chunk:
                    break
                tracker.evaluate(as_batch(chunk, case.get("form", "list"), pos))
                pos += len(chunk)
                for ind in chunk:
                    a = ref_agg(ind.genotype[1])
                    if ref_best is None or a > ref_agg(ref_best.genotype[1]):
                        ref_best = ind
                        exp_flags.append(True)
                    else:
                        exp_flags.append(False)
                got = tracker.get_best_individual()
                if got is not ref_best:
                    ga = None if got is None else ref_agg(got.genotype[1])
                    worse = got is None or ga < ref_agg(ref_best.genotype[1])
                    rec.fail(
                        "C12/single-on-multi/" + ("best-is-not-the-best-evaluated" if worse else "best-replaced-on-tie"),
                        f"history {values} (minimize={minimize}, aggregate {agg}): after {pos} evaluations the tracker reports {None if got is None else got.genotype} (aggregate {ga}), the first individual attaining the best aggregate is {ref_best.genotype} ({ref_agg(ref_best.genotype[1])})",
                    )
                    return
                flags = [f for _, f in spy.events]
                if flags != exp_flags[: len(flags)] or len(flags) != len(exp_flags):
                    rec.fail("C12/single-on-multi/is_best-flag-wrong", f"history {values} (minimize={minimize}, aggregate {agg}): is_best flags {flags}, expected {exp_flags}")
                    return
            aggs = [ref_agg(v) for v in values]
            if len(set(aggs)) < len(aggs) and len(set(map(tuple, values))) == len(values):
                rec.nontrivial(case)
            return
        tracker = MultiObjectiveProgressTracker(problem, SequentialEvaluator(), recorders=[spy])
        pos = 0
        best_so_far = None
        seen_events = 0
        for b in case["batches"]:
            chunk = inds[pos : pos + b]
            if not chunk:
                break
            tracker.evaluate(as_batch(chunk, case.get("form", "list"), pos))
            pos += len(chunk)
            # judge flags of this chunk one by one
            for ind, flag in spy.events[seen_events:]:
                a = ref_agg(ind.genotype[1])
                if best_so_far is None or a > best_so_far:
                    best_so_far = a
                if flag and a < best_so_far - 1e-12:
                    rec.fail(
                        "C12/multi/is_best-individual-below-best-aggregate",
                        f"history {values} (minimize={minimize}, aggregate {agg}): individual {ind.genotype} registered as best has aggregate {a} < best so far {best_so_far}",
                    )
                    return
            seen_events = len(spy.events)
            front = tracker.get_best_individuals()
            if not front:
                rec.fail("C12/multi/empty-front", f"history {values}: no best individual after {pos} evaluations")
                return
            for m in front:
                a = ref_agg(m.genotype[1])
                if a < best_so_far - 1e-12:
                    rec.fail(
                        "C12/multi/front-member-below-best-aggregate",
                        f"history {values} (minimize={minimize}, aggregate {agg}): get_best_individuals() contains {m.genotype} with aggregate {a} < best so far {best_so_far}",
                    )
                    return
            # stored aggregate equals the reference aggregate
            for ind in chunk:
                f = ind.get_fitness(problem)
                if abs(f.maximizing_aggregate - ref_agg(ind.genotype[1])) > 1e-9:
                    rec.discard()  # C13's business
        aggs = [ref_agg(v) for v in values]
        if len(set(aggs)) < len(aggs) and max(aggs) != aggs[0]:
            rec.nontrivial(case)


class Searches(Facet):
    name = "searches_observed"

    def budget(self, tier):
        return (80, 8) if tier == "quick" else (400, 16)

    def strategy(self, tier):
        fl = Flags(dependent=False, user_mh=False, max_concrete=5, max_abstract=2, tuples=False)
        shapes = st.sampled_from(["default", "default", "vary-then-elitism", "vary-then-tournament", "select-vary"])
        return st.builds(
            lambda spec, rep, alg, budget, pop, seed, minimize, mod, multi, shape: {
                "spec": spec, "rep": rep, "decider": "maxdepth", "depth_extra": 2, "seed": seed, "gene_length": 32, "ops": [],
                "alg": alg, "budget": budget, "popsize": pop, "minimize": minimize, "mod": mod, "multi": multi, "shape": shape,
            },
            specs(fl),
            st.sampled_from(["tree", "tree", "ge", "dsge"]),
            st.sampled_from(["rs", "1p1", "hc", "gp"]),
            st.integers(1, 40),
            st.integers(2, 7),
            st.integers(0, 2**31),
            st.booleans(),
            st.sampled_from([2, 3, 5]),
            st.booleans(),
            shapes,
        )

    @staticmethod
    def gp_step(shape):
        """Step shapes for GP searches. 'vary-then-elitism': elitism over freshly produced offspring
        with k == len keeps (and therefore presents to the tracker) every offspring it evaluated;
        'vary-then-tournament': offspring that lose every tournament are evaluated inside the step
        but never presented to the tracker (recorded finding)."""
        from vk.steps import build_step

        if shape == "vary-then-elitism":
            return build_step(["seq", [["mutation", 1.0], ["elitism"]]])
        if shape == "vary-then-tournament":
            return build_step(["seq", [["mutation", 1.0], ["tournament", 2, True]]])
        if shape == "select-vary":
            return build_step(["seq", [["tournament", 3, False], ["mutation", 1.0]]])
        return None

    def run(self, case, rec):
        import hashlib

        from geneticengine.evaluation.budget import EvaluationBudget, SearchBudget
        from geneticengine.evaluation.sequential import SequentialEvaluator
        from geneticengine.evaluation.tracker import MultiObjectiveProgressTracker, SingleObjectiveProgressTracker
        from geneticengine.problems import MultiObjectiveProblem

        try:
            w = World(case)
        except Exception:  # noqa: BLE001
            rec.discard()
            return
        try:
            if not w.productive():
                rec.discard()
                return
            try:
                w.build()
            except Exception:  # noqa: BLE001
                rec.discard()
                return
            info = w.info
            minimize = case["minimize"]
            multi = case["multi"] and case["alg"] == "gp"
            invoked = []  # raw fitness values in invocation order

            def raw(p):
                h = hashlib.sha256(canon_str(canon(p, info)).encode()).digest()
                return float(h[0] % case["mod"])

            def ff(p):
                v = raw(p)
                invoked.append(v)
                return v

            spy = _mk_recorder()
            checks = []

            class SpyBudget(SearchBudget):
                def __init__(self, inner):
                    self.inner = inner

                def is_done(self, tracker):
                    checks.append((len(invoked), _best_value(tracker)))
                    return self.inner.is_done(tracker)

            def _best_value(tracker):
                if isinstance(tracker, SingleObjectiveProgressTracker):
                    b = tracker.get_best_individual()
                    return None if b is None else b.get_fitness(tracker.problem).fitness_components[0]
                bs = tracker.get_best_individuals()
                return None if not bs else sum(bs[0].get_fitness(tracker.problem).fitness_components)

            rec.label("alg:" + case["alg"], "rep:" + case["rep"], "multi" if multi else "single")
            behind = case["alg"] == "gp" and case["shape"] == "vary-then-tournament"
            if case["alg"] == "gp":
                rec.label("gp-step:" + case["shape"])
            budget = SpyBudget(EvaluationBudget(case["budget"]))
            try:
                if multi:
                    from geneticengine.algorithms.gp.gp import GeneticProgramming

                    def ff2(p):
                        v = raw(p)
                        invoked.append(v)
                        return [v, 0.0]

                    problem = MultiObjectiveProblem([minimize, minimize], ff2)
                    tracker = MultiObjectiveProgressTracker(problem, SequentialEvaluator(), recorders=[spy])
                    alg = GeneticProgramming(problem=problem, budget=budget, representation=w.rep, random=w.random, tracker=tracker, population_size=max(2, case["popsize"]), step=self.gp_step(case["shape"]))
                    best = alg.search()
                else:
                    _, best = w.search(
                        case["alg"], case["budget"], case["popsize"], fitness=ff, minimize=minimize,
                        tracker=lambda problem: SingleObjectiveProgressTracker(problem, SequentialEvaluator(), recorders=[spy]),
                        budget_obj=budget, step=self.gp_step(case["shape"]) if case["alg"] == "gp" else None,
                    )
                    problem = w.last_problem
                    tracker = w.last_algorithm.tracker
            except Exception as e:  # noqa: BLE001
                rec.discard()
                rec.label("discarded:" + type(e).__name__)
                return
            rec.sample({"spec": spec_str(case["spec"]), "alg": case["alg"], "rep": case["rep"], "budget": case["budget"], "minimize": minimize, "invocations": len(invoked)})

            def val(ind):
                return ind.get_fitness(problem).fitness_components[0]

            # (1) at every registration: flags and dominance over what was registered so far
            reg_best = None
            for k, (ind, flag) in enumerate(spy.events):
                v = val(ind)
                improving = reg_best is None or better(v, reg_best, minimize)
                if not multi and flag != improving:
                    rec.fail(
                        f"C12/search/{case['alg']}/is_best-flag-wrong",
                        f"registration #{k} (fitness {v}, best registered before {reg_best}, minimize={minimize}) had is_best={flag}; grammar {spec_str(case['spec'])}",
                    )
                    break
                if multi and flag and reg_best is not None and better(reg_best, v, minimize):
                    rec.fail(f"C12/search/gp-multi/is_best-individual-below-best", f"registration #{k}: is_best for fitness {v} although {reg_best} was registered before")
                    break
                if improving:
                    reg_best = v
            # (2) at every budget check: best dominates every invocation so far
            for n_inv, bv in checks:
                if n_inv == 0:
                    continue
                opt = min(invoked[:n_inv]) if minimize else max(invoked[:n_inv])
                if bv is None or better(opt, bv, minimize):
                    rec.fail(
                        "C12/search/gp/individual-evaluated-inside-a-step-is-never-presented-to-the-tracker" if behind else f"C12/search/{case['alg']}/best-at-budget-check-not-optimal",
                        f"budget check after {n_inv} fitness invocations: reported best {bv}, but {opt} was evaluated (minimize={minimize}); grammar {spec_str(case['spec'])}",
                    )
                    break
            # (3) returned individual
            if invoked:
                opt = min(invoked) if minimize else max(invoked)
                if best is None or better(opt, val(best), minimize):
                    rec.fail(
                        "C12/search/gp/individual-evaluated-inside-a-step-is-never-presented-to-the-tracker" if behind else f"C12/search/{case['alg']}/returned-individual-not-optimal",
                        f"search() returned fitness {None if best is None else val(best)} but {opt} was evaluated (minimize={minimize}); grammar {spec_str(case['spec'])}",
                    )
                elif not multi and best is not tracker.get_best_individual():
                    rec.fail(f"C12/search/{case['alg']}/returned-individual-is-not-the-tracked-best", "search() returned a different object than tracker.get_best_individual()")
            if _nontrivial_history(invoked, minimize):
                rec.nontrivial((case["alg"], tuple(invoked), minimize))
        finally:
            w.cleanup()


def replay_tracker_history(ops, rec):
    """Executes a tracker history given as data: [["init", minimize], ["new", v], ["flush", k],
    ["again", i]] and judges it against the reference fold. Used both by the state machine
    (after every step) and by --replay."""
    from geneticengine.evaluation.sequential import SequentialEvaluator
    from geneticengine.evaluation.tracker import SingleObjectiveProgressTracker
    from geneticengine.problems import SingleObjectiveProblem
    from geneticengine.solutions.individual import Individual

    minimize = bool(ops[0][1]) if ops and ops[0][0] == "init" else False
    rep = TableRep()
    problem = SingleObjectiveProblem(lambda p: p[1], minimize=minimize)
    spy = _mk_recorder()
    tracker = SingleObjectiveProgressTracker(problem, SequentialEvaluator(), recorders=[spy])
    pending, done = [], []
    ref_best, n_events = None, 0
    for op in ops[1:]:
        if op[0] == "new":
            pending.append(Individual((len(pending) + len(done), op[1]), rep))
            continue
        if op[0] == "flush":
            batch, pending = pending[: op[1]], pending[op[1] :]
        elif op[0] == "again" and done:
            batch = [done[op[1] % len(done)]]
        else:
            continue
        if not batch:
            continue
        tracker.evaluate(as_batch(batch, op[2] if len(op) > 2 else "list"))
        exp_flags = []
        for ind in batch:
            v = ind.genotype[1]
            if ref_best is None or better(v, ref_best.genotype[1], minimize):
                ref_best = ind
                exp_flags.append(True)
            else:
                exp_flags.append(False)
            if ind not in done:
                done.append(ind)
        got = tracker.get_best_individual()
        hist = f"history {ops}"
        if got is not ref_best:
            worse = got is None or better(ref_best.genotype[1], got.genotype[1], minimize)
            rec.fail(
                "C12/stateful/" + ("best-is-not-the-best-evaluated" if worse else "best-replaced-on-tie"),
                f"after {op}: tracker reports {None if got is None else got.genotype}, reference best {ref_best.genotype} (minimize={minimize}); {hist}",
            )
            return
        flags = [f for _, f in spy.events[n_events:]]
        n_events = len(spy.events)
        if flags != exp_flags:
            rec.fail("C12/stateful/is_best-flag-wrong", f"after {op}: is_best flags {flags}, expected {exp_flags} (minimize={minimize}); {hist}")
            return


class TrackerMachineFacet(Facet):
    """Hypothesis RuleBasedStateMachine over the single-objective tracker: rules create
    individuals, evaluate batches of pending ones and present already evaluated ones again; the
    invariant compares the tracker with the reference fold after every step."""

    name = "tracker_state_machine"
    stateful = True

    def budget(self, tier):
        return (150, 2) if tier == "quick" else (600, 16)

    def steps(self, tier):
        return 20 if tier == "quick" else 40

    def run(self, case, rec):
        replay_tracker_history(case["ops"], rec)

    def machine(self, new_recorder, stats):
        from hypothesis import strategies as st
        from hypothesis.stateful import RuleBasedStateMachine, initialize, invariant, rule

        from vk.values import single_objective_values

        from vk.core import PropertyViolation

        class TrackerMachine(RuleBasedStateMachine):
            def __init__(self):
                super().__init__()
                self.ops = [["init", False]]
                stats.cases += 1

            @initialize(minimize=st.booleans())
            def init(self, minimize):
                self.ops = [["init", minimize]]

            @rule(v=single_objective_values(-2, 3))
            def new(self, v):
                self.ops.append(["new", v])

            @rule(k=st.integers(1, 4), form=st.sampled_from(BATCH_FORMS[:4]))
            def flush(self, k, form):
                self.ops.append(["flush", k, form])

            @rule(i=st.integers(0, 10))
            def again(self, i):
                self.ops.append(["again", i])

            @invariant()
            def agrees_with_reference_fold(self):
                rec = new_recorder()
                replay_tracker_history(self.ops, rec)
                vals = [o[1] for o in self.ops if o[0] == "new"]
                if _nontrivial_history(vals, bool(self.ops[0][1])):
                    rec.nontrivial(self.ops)
                if len(stats.samples) < 3 and len(self.ops) > 6:
                    rec.sample({"ops": list(self.ops)})
                bad = rec.unlisted()
                if bad:
                    raise PropertyViolation(bad[0][0], bad[0][1], {"ops": list(self.ops)})

        return TrackerMachine


FACETS = [ExhaustiveSingle(), RandomHistories(), Searches(), TrackerMachineFacet()]
