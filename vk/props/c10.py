"""C10 — the grammar is read-only during synthesis and search."""
from __future__ import annotations

from vk.core import Facet
from vk.refmodel import Language, TooLarge, canon
from vk.sources import Unbounded, enumerate_all
from vk.spec import Flags, spec_str
from vk.world import World, world_cases

LEVEL = "exploration"
RULE = (
    "Hypothesis draws a grammar whose dependent refinements / user metahandlers make some productions infeasible in some "
    "contexts (VarRange over an empty prefix, a metahandler raising SynthesisException for a sibling value), any of the five "
    "representations, a decider, a depth limit and a create/map/mutate/crossover/search sequence that includes failing "
    "operations. After EVERY operation a snapshot of the grammar (alternatives as ordered lists, distanceToTerminal, "
    "recursive_prods, all_nodes, terminals, non_terminals, get_weights(), each class's __gengy__) must equal the snapshot taken "
    "after extraction. On finite-choice grammars the set of creatable programs (all decision paths of grow creation) is "
    "enumerated before and after the operation burst and must be equal. Non-trivial = a history in which the library caught at "
    "least one SynthesisException internally (counted by the metahandlers); distinct by (spec, ops)."
)
ASSUMPTIONS = [
    "abstract_dist_to_t (a defaultdict that inserts placeholders when read) is compared on finite entries only",
    "infeasible contexts are produced only through documented mechanisms (VarRange([]) raising SynthesisException, user metahandler raising it)",
]


def _refinement_state(o):
    """The parameters of a library refinement object (bounds, option lists, probability matrices ...)
    by value; user-written metahandlers of the harness keep call counters and are left out."""
    if not type(o).__module__.startswith("geneticengine"):
        return None
    out = {}
    for k, v in vars(o).items():
        if hasattr(v, "tolist"):
            v = v.tolist()
        out[k] = repr(v)
    return out


def grammar_snapshot(g, names, mh_objects=()):
    def nm(t):
        return names.get(t, repr(t))

    # read before anything that could write (get_weights() is itself code under test)
    gengy = {nm(c): dict(c.__dict__.get("__gengy__", {})) for c in names}
    snap = {
        "alternatives": {nm(k): [nm(x) for x in v] for k, v in g.alternatives.items()},
        "distanceToTerminal": {nm(k): v for k, v in g.distanceToTerminal.items()},
        "recursive_prods": sorted(nm(x) for x in g.recursive_prods),
        "all_nodes": sorted(nm(x) for x in g.all_nodes),
        "terminals": sorted(nm(x) for x in g.terminals),
        "non_terminals": sorted(nm(x) for x in g.non_terminals),
        "weights": {nm(k): v for k, v in g.get_weights().items()},
        "gengy": gengy,
        # the refinements inside the productions' field types are part of the grammar, too
        "refinements": {f"{cn}.{fn}#{i}": _refinement_state(o) for i, (cn, fn, _, o) in enumerate(mh_objects)},
        "abstract_dist_to_t": {nm(k): {nm(k2): v2 for k2, v2 in v.items() if v2 < 1000000} for k, v in list(g.abstract_dist_to_t.items())},
        "starting_symbol": nm(g.starting_symbol),
        "considered": [nm(x) for x in g.considered_subtypes],
    }
    snap["abstract_dist_to_t"] = {k: v for k, v in snap["abstract_dist_to_t"].items() if v}
    return snap


def snap_diff(a, b):
    for k in a:
        if a[k] != b[k]:
            return k, a[k], b[k]
    return None


class ReadOnly(Facet):
    name = "grammar_read_only"
    flags = Flags(dependent=True, user_mh=True, infeasible=True, weights=True, max_concrete=6, unproductive=True, weighted_string=True, interval_range=True, float_refined=True, string_refined=True)
    reps = ("tree", "ge", "sge", "dsge", "stack")

    def budget(self, tier):
        return (120, 8) if tier == "quick" else (500, 16)

    def strategy(self, tier):
        return world_cases(self.flags, reps=self.reps, max_ops=10, with_search=True, depth_extras=(0, 1, 2, 3))

    def run(self, case, rec):
        try:
            w = World(case)
        except Exception:  # noqa: BLE001
            rec.discard()
            return
        try:
            self._run(case, rec, w)
        finally:
            w.cleanup()

    def raised_count(self, w):
        return sum(getattr(o, "raised", 0) for _, _, _, o in w.mat.mh_objects)

    def _run(self, case, rec, w):
        rep = case["rep"]
        if not w.productive():
            rec.discard()
            return
        g = w.grammar
        names = w.mat.names
        s0 = grammar_snapshot(g, names, w.mat.mh_objects)
        rec.label("rep:" + rep)
        try:
            w.build()
        except Exception:  # noqa: BLE001
            rec.discard()
        sb = grammar_snapshot(g, names, w.mat.mh_objects)
        d = snap_diff(s0, sb)
        if d:
            rec.fail(f"C10/modified/{d[0]}/by-construction-of-{rep}", f"building the representation changed grammar.{d[0]}: {d[1]} -> {d[2]}; {spec_str(case['spec'])}")
            return
        if w.rep is None:
            return
        state = {"failed_ops": 0, "synth_exc": 0}
        rec.sample({"spec": spec_str(case["spec"]), "rep": rep, "decider": case["decider"], "ops": case["ops"]})

        def obs(ev, w):
            if ev.exc is not None:
                state["failed_ops"] += 1
                rec.label("op-failed:" + type(ev.exc).__name__)
            else:
                for i in ev.outputs:
                    try:
                        w.phenotype(i)
                    except Exception:  # noqa: BLE001
                        state["failed_ops"] += 1
            s1 = grammar_snapshot(g, names, w.mat.mh_objects)
            d = snap_diff(s0, s1)
            if d:
                k, a, b = d
                detail = f"{a} -> {b}"
                if isinstance(a, dict):
                    ch = {x: (a.get(x), b.get(x)) for x in set(a) | set(b) if a.get(x) != b.get(x)}
                    detail = repr(ch)
                rec.fail(
                    f"C10/modified/{k}/{'treegen' if rep != 'stack' else 'stack'}",
                    f"after {ev.op} ({rep}{', op raised ' + type(ev.exc).__name__ if ev.exc else ''}) grammar.{k} changed: {detail[:400]}; {spec_str(case['spec'])}",
                )
                s0.update(s1)  # report each change once

        w.run(obs)
        if self.raised_count(w) > 0 or state["failed_ops"] > 0:
            rec.nontrivial((case["spec"], case["ops"], rep))
            rec.label("history-with-internal-backtracking" if self.raised_count(w) else "history-with-failing-op")


class CreatableSetStable(Facet):
    """Consequence clause: the set of creatable programs neither shrinks nor grows."""

    name = "creatable_set_stable"
    flags = Flags(finite_choice=True, dependent=True, user_mh=True, infeasible=True, max_abstract=2, max_concrete=4, max_fields=2, max_list_size=2, unreachable=False, permute_considered=False)

    def budget(self, tier):
        return (30, 6) if tier == "quick" else (200, 16)

    def strategy(self, tier):
        return world_cases(self.flags, reps=("tree",), deciders=("maxdepth",), max_ops=12, depth_extras=(0, 1), with_map=False)

    def run(self, case, rec):
        try:
            w = World(case)
        except Exception:  # noqa: BLE001
            rec.discard()
            return
        try:
            if not w.productive():
                rec.discard()
                return
            try:
                w.build()
            except Exception:  # noqa: BLE001
                rec.discard()
                return
            cap = 1500

            def creatable():
                def run(src):
                    return w.make_rep(w.make_decider(src, "maxdepth"), "tree").create_genotype(src)

                out = set()
                n = 0
                gen = enumerate_all(run, cap, max_width=64)
                complete = False
                while True:
                    try:
                        _, p, exc = next(gen)
                    except StopIteration as s:
                        complete = bool(s.value)
                        break
                    n += 1
                    if exc is None:
                        out.add(canon(p, w.info))
                return out, complete

            try:
                before, c1 = creatable()
            except Unbounded:
                rec.discard()
                return
            # NOTE: the enumeration itself is a burst of creations; compare a second enumeration
            w.run(lambda ev, w: None)
            try:
                after, c2 = creatable()
            except Unbounded:
                rec.discard()
                return
            rec.label("complete" if (c1 and c2) else "truncated")
            rec.sample({"spec": spec_str(case["spec"]), "creatable_before": len(before), "creatable_after": len(after)})
            if c1 and c2 and before != after:
                lost = sorted(before - after, key=repr)[:2]
                new = sorted(after - before, key=repr)[:2]
                rec.fail(
                    "C10/creatable-set-changed/" + ("shrunk" if lost else "grew"),
                    f"programs creatable at max_depth {w.max_depth}: {len(before)} before, {len(after)} after {len(case['ops'])} operations (lost {lost}, new {new}); {spec_str(case['spec'])}",
                )
            if len(before) >= 3:
                rec.nontrivial((case["spec"], case["ops"]))
        finally:
            w.cleanup()


FACETS = [ReadOnly(), CreatableSetStable()]
