"""Runner core: facets, recorder, known findings, evidence, sharding (DESIGN.md §1.6)."""
from __future__ import annotations

import hashlib
import json
import os
import sys
import time
import traceback
from collections import Counter

VERIF_DIR = os.path.dirname(os.path.dirname(os.path.abspath(__file__)))
KNOWN_FILE = os.path.join(VERIF_DIR, "known_findings.json")
COLLECT = bool(os.environ.get("VK_COLLECT"))
ONLY_BUCKET = os.environ.get("VK_ONLY_BUCKET")  # triage: shrink towards one bucket only


def jhash(obj) -> int:
    s = json.dumps(obj, sort_keys=True, default=repr).encode()
    return int.from_bytes(hashlib.blake2b(s, digest_size=8).digest(), "big")


def to_jsonable(o):
    if isinstance(o, (str, int, float, bool)) or o is None:
        return o
    if isinstance(o, dict):
        return {str(k): to_jsonable(v) for k, v in o.items()}
    if isinstance(o, (list, tuple, set, frozenset)):
        return [to_jsonable(x) for x in o]
    return repr(o)


class PropertyViolation(Exception):
    def __init__(self, bucket, message, case):
        super().__init__(f"{bucket}: {message}")
        self.bucket = bucket
        self.message = message
        self.case = case


class HarnessError(Exception):
    pass


class SlowViolation(BaseException):
    """A violation on a case that takes seconds to run (typically runaway recursion in the
    library): reported as found, without Hypothesis' shrinking (hundreds of re-executions)."""

    def __init__(self, v):
        super().__init__(str(v))
        self.v = v


class Known:
    """known_findings.json: list of entries
    {"property","bucket","status":"open"|"fixed","what","commit"?, "repro": {"facet", "case"}}"""

    def __init__(self, pid):
        self.entries = []
        if os.path.exists(KNOWN_FILE):
            with open(KNOWN_FILE) as f:
                data = json.load(f)
            self.entries = [e for e in data.get("findings", []) if e["property"] == pid]
        self.open_buckets = {e["bucket"]: e for e in self.entries if e["status"] == "open"}

    def is_open(self, bucket) -> bool:
        if os.environ.get("VK_IGNORE_KNOWN") == "1":  # triage only: re-shrink a reproducer of an open finding
            return False
        return bucket in self.open_buckets


class Stats:
    """Per-facet counters; mergeable across shards."""

    def __init__(self, name):
        self.name = name
        self.cases = 0
        self.nontrivial: set[int] = set()
        self.labels: Counter = Counter()
        self.discarded = 0
        self.known_hits: Counter = Counter()
        self.samples: list = []
        self.violations: list[dict] = []
        self.inconclusive = 0
        self.exhaustive: bool | None = None
        self.notes: list[str] = []
        self.excluded: Counter = Counter()
        self.collected: dict[str, str] = {}

    def to_dict(self):
        return {
            "name": self.name,
            "cases": self.cases,
            "nontrivial": sorted(self.nontrivial),
            "labels": dict(self.labels),
            "discarded": self.discarded,
            "known_hits": dict(self.known_hits),
            "samples": self.samples,
            "violations": self.violations,
            "inconclusive": self.inconclusive,
            "exhaustive": self.exhaustive,
            "notes": self.notes,
            "excluded": dict(self.excluded),
            "collected": dict(self.collected),
        }

    @staticmethod
    def merge(dicts):
        s = Stats(dicts[0]["name"])
        for d in dicts:
            s.cases += d["cases"]
            s.nontrivial |= set(d["nontrivial"])
            s.labels.update(d["labels"])
            s.discarded += d["discarded"]
            s.known_hits.update(d["known_hits"])
            for x in d["samples"]:
                if len(s.samples) < 4:
                    s.samples.append(x)
            s.violations.extend(d["violations"])
            s.inconclusive += d["inconclusive"]
            if d["exhaustive"] is not None:
                s.exhaustive = d["exhaustive"] if s.exhaustive is None else (s.exhaustive and d["exhaustive"])
            for n in d["notes"]:
                if n not in s.notes:
                    s.notes.append(n)
            s.excluded.update(d["excluded"])
            for k, v in d.get("collected", {}).items():
                s.collected.setdefault(k, v)
        return s


class Recorder:
    """Handed to a facet's run(case, rec). Collects findings for one case."""

    def __init__(self, stats: Stats, known: Known, counting=True):
        self.stats = stats
        self.known = known
        self.findings: list[tuple[str, str]] = []
        self.counting = counting

    def label(self, *names):
        if self.counting:
            for n in names:
                self.stats.labels[n] += 1

    def nontrivial(self, key):
        if self.counting:
            self.stats.nontrivial.add(jhash(key) if not isinstance(key, int) else key)

    def discard(self, n=1):
        if self.counting:
            self.stats.discarded += n

    def inconclusive(self, n=1):
        if self.counting:
            self.stats.inconclusive += n

    def sample(self, obj, limit=3):
        """Keeps the first case and, in the other slots, cases from later in the run (Hypothesis starts
        with the simplest values; later cases show what the generator really produces)."""
        if not self.counting:
            return
        limit = max(limit, 3)
        if len(self.stats.samples) < limit:
            self.stats.samples.append(to_jsonable(obj))
        elif self.stats.cases % 7 == 0:
            self.stats.samples[1 + (self.stats.cases // 7) % (limit - 1)] = to_jsonable(obj)

    def fail(self, bucket: str, message: str):
        """Report an oracle failure. Known-open buckets are counted and do not fail the
        example (the search continues behind them)."""
        if self.known.is_open(bucket):
            if self.counting:
                self.stats.known_hits[bucket] += 1
            return
        if ONLY_BUCKET and bucket != ONLY_BUCKET:
            return
        if COLLECT:
            # triage mode (VK_COLLECT=1): never fail, remember one example per bucket
            if self.counting:
                self.stats.known_hits["UNLISTED " + bucket] += 1
                if bucket not in self.stats.collected:
                    self.stats.collected[bucket] = message
            return
        self.findings.append((bucket, message))

    def unlisted(self):
        return self.findings


ALL_HEALTH = None


def hyp_settings(n, shrink=True):
    from hypothesis import HealthCheck, Phase, settings

    phases = [Phase.explicit, Phase.generate]
    if shrink:
        phases.append(Phase.shrink)
    return settings(
        max_examples=n,
        database=None,
        deadline=None,
        derandomize=False,
        report_multiple_bugs=False,
        suppress_health_check=list(HealthCheck),
        phases=phases,
        print_blob=False,
    )


class Facet:
    """A facet = generator + oracle. Subclasses define:
    name, strategy(tier) (Hypothesis strategy of JSON-able cases) or cases(tier, shard, nshards)
    (an iterator for enumerative facets), budget(tier) -> (n_examples_per_shard, n_shards),
    run(case, rec)."""

    name = "facet"
    enumerative = False

    def budget(self, tier):
        return (100, 1) if tier == "quick" else (400, 16)

    def strategy(self, tier):
        raise NotImplementedError

    def cases(self, tier, shard, nshards):
        raise NotImplementedError

    def run(self, case, rec: Recorder):
        raise NotImplementedError


def run_shard(pid, facet: Facet, tier, seed, shard, nshards) -> dict:
    """Executes one shard of a facet in this process; returns Stats dict."""
    from hypothesis import given
    from hypothesis import seed as hseed

    known = Known(pid)
    stats = Stats(facet.name)
    n, _ = facet.budget(tier)
    t0 = time.time()

    def one(case, counting=True):
        rec = Recorder(stats, known, counting)
        if counting:
            stats.cases += 1
        t_case = time.time()
        facet.run(case, rec)
        bad = rec.unlisted()
        if bad:
            v = PropertyViolation(bad[0][0], bad[0][1], case)
            if (time.time() - t_case > 4.0 or getattr(facet, "report_unshrunk", False)) and not facet.enumerative:
                raise SlowViolation(v)
            raise v

    if facet.enumerative:
        try:
            for case in facet.cases(tier, shard, nshards):
                one(case)
        except PropertyViolation as v:
            stats.violations.append({"bucket": v.bucket, "message": v.message, "case": to_jsonable(v.case)})
    elif getattr(facet, "stateful", False):
        # Hypothesis rule-based state machine: rules are operations with generated arguments, the
        # invariant runs after every step and the whole history shrinks as one value. The machine
        # logs its history as data; a violation carries that history as the replay case, which
        # facet.run() re-executes without Hypothesis.
        from hypothesis.stateful import run_state_machine_as_test

        sd = seed * 1000 + shard
        steps = facet.steps(tier)
        machine = facet.machine(lambda: Recorder(stats, known, True), stats)
        try:
            from hypothesis import settings as hsettings

            base = hyp_settings(n, shrink=True)
            run_state_machine_as_test(hseed(sd)(machine), settings=hsettings(base, stateful_step_count=steps))
        except PropertyViolation as v:
            stats.violations.append({"bucket": v.bucket, "message": v.message, "case": to_jsonable(v.case)})
        except BaseException as e:  # noqa: BLE001
            if isinstance(e, (KeyboardInterrupt, SystemExit)):
                raise
            v = _find_violation(e)
            if v is not None:
                stats.violations.append({"bucket": v.bucket, "message": v.message, "case": to_jsonable(v.case)})
            else:
                raise HarnessError(f"facet {facet.name} shard {shard}: {type(e).__name__}: {str(e)[:300]}\n{traceback.format_exc()[-2500:]}")
    else:
        strat = facet.strategy(tier)
        sd = seed * 1000 + shard

        @hseed(sd)
        @hyp_settings(n, shrink=True)
        @given(strat)
        def test(case):
            one(case)

        try:
            test()
        except PropertyViolation as v:
            stats.violations.append({"bucket": v.bucket, "message": v.message, "case": to_jsonable(v.case)})
        except SlowViolation as sv:
            v = sv.v
            stats.notes.append("violation on a slow case: reported unshrunk")
            stats.violations.append({"bucket": v.bucket, "message": v.message, "case": to_jsonable(v.case)})
        except BaseException as e:  # noqa: BLE001
            if isinstance(e, (KeyboardInterrupt, SystemExit)):
                raise
            # Hypothesis may wrap (e.g. Flaky); anything else is a harness error
            v = _find_violation(e)
            if v is not None:
                stats.violations.append({"bucket": v.bucket, "message": v.message, "case": to_jsonable(v.case)})
            else:
                raise HarnessError(f"facet {facet.name} shard {shard}: {type(e).__name__}: {str(e)[:300]}\n{traceback.format_exc()[-2500:]}")
    stats.notes.append(f"shard {shard}: {time.time() - t0:.1f}s")
    return stats.to_dict()


def _find_violation(e):
    seen = set()
    while e is not None and id(e) not in seen:
        seen.add(id(e))
        if isinstance(e, PropertyViolation):
            return e
        if isinstance(e, BaseExceptionGroup):
            for x in e.exceptions:
                v = _find_violation(x)
                if v:
                    return v
        e = e.__cause__ or e.__context__
    return None


def kill_descendants():
    """SIGKILL every descendant process (workers and whatever they spawned), so that a shard
    stuck inside the library cannot keep the check from exiting."""
    import signal

    me = os.getpid()
    children: dict[int, list[int]] = {}
    for d in os.listdir("/proc"):
        if not d.isdigit():
            continue
        try:
            with open(f"/proc/{d}/stat") as f:
                parts = f.read().rsplit(")", 1)[1].split()
            children.setdefault(int(parts[1]), []).append(int(d))
        except Exception:  # noqa: BLE001
            continue
    todo, victims = [me], []
    while todo:
        for c in children.get(todo.pop(), []):
            victims.append(c)
            todo.append(c)
    for v in victims:
        try:
            os.kill(v, signal.SIGKILL)
        except Exception:  # noqa: BLE001
            pass


def _job(args):
    pid, modname, facet_name, tier, seed, shard, nshards = args
    import importlib

    if tier == "fuzz":
        return _fuzz_job(pid, facet_name, seed, shard, nshards)
    mod = importlib.import_module(modname)
    facet = [f for f in mod.FACETS if f.name == facet_name][0]
    try:
        return ("ok", run_shard(pid, facet, tier, seed, shard, nshards))
    except HarnessError as e:
        return ("harness", str(e))
    except BaseException as e:  # noqa: BLE001
        return ("harness", f"{facet_name}/{shard}: {type(e).__name__}: {e}\n{traceback.format_exc()}")


def _fuzz_job(pid, facet_name, seed, shard, runs):
    """One coverage-guided campaign (vk/fuzz.py) in a child process; its Stats are merged into the
    facet's like any other shard. A campaign that does not finish is inconclusive, never a violation."""
    import subprocess
    import tempfile

    fd, out = tempfile.mkstemp(prefix=f"vkfuzz-{pid}-", suffix=".json", dir=os.path.join(VERIF_DIR, ".fuzz"))
    os.close(fd)
    os.unlink(out)
    limit = float(os.environ.get("VK_FUZZ_TIMEOUT", "1800"))
    note = None
    try:
        r = subprocess.run(
            [sys.executable, "-m", "vk.fuzz", pid, facet_name, str(seed * 1000 + shard), str(runs), out],
            cwd=VERIF_DIR, capture_output=True, text=True, timeout=limit,
        )
        if os.path.exists(out):
            with open(out) as f:
                d = json.load(f)
            os.unlink(out)
            if "harness_error" in d:
                return ("harness", f"{facet_name}/coverage-guided: {d['harness_error']}")
            return ("ok", d)
        note = f"coverage-guided campaign ended without a result (rc={r.returncode}): {r.stderr[-300:]!r}"
    except subprocess.TimeoutExpired:
        note = f"coverage-guided campaign did not finish within {limit:.0f}s"
    st = Stats(facet_name)
    st.notes.append("inconclusive: " + note)
    return ("ok", st.to_dict())


def fuzz_available():
    """atheris is installed beside the checks (into /verif/.deps) from the offline wheelhouse on
    first use; without it the coverage-guided shards are skipped (and the evidence says so)."""
    deps = os.path.join(VERIF_DIR, ".deps")
    if os.path.isdir(os.path.join(deps, "atheris")):
        return True
    import subprocess

    try:
        subprocess.run(
            [sys.executable, "-m", "pip", "install", "-q", "--no-index", "--find-links", "/opt/veriftools/wheels", "--target", deps, "atheris"],
            capture_output=True, timeout=300,
        )
    except Exception:  # noqa: BLE001
        return False
    return os.path.isdir(os.path.join(deps, "atheris"))


def run_property(pid, modname, tier, seed, level, rule, assumptions, procs=16, only_facets=None):
    import importlib
    import multiprocessing as mp

    t0 = time.time()
    mod = importlib.import_module(modname)
    facets = [f for f in mod.FACETS if not only_facets or f.name in only_facets]
    jobs = []
    for f in facets:
        _, nshards = f.budget(tier)
        for sh in range(nshards):
            jobs.append((pid, modname, f.name, tier, seed, sh, nshards))
    fuzz_note = None
    if tier == "thorough" and os.environ.get("VK_FUZZ", "1") != "0" and not COLLECT and not ONLY_BUCKET:
        # a second search engine over the same generators and oracles: coverage-guided byte mutation
        fz = [f for f in facets if not f.enumerative and not getattr(f, "stateful", False) and getattr(f, "fuzz_runs", 4000) > 0]
        if fz and fuzz_available():
            os.makedirs(os.path.join(VERIF_DIR, ".fuzz"), exist_ok=True)
            for f in fz:
                for sh in range(getattr(f, "fuzz_shards", 1)):
                    jobs.append((pid, modname, f.name, "fuzz", seed, 900 + sh, getattr(f, "fuzz_runs", 4000)))
            fuzz_note = f"coverage-guided campaigns on {len(fz)} facet(s)"
        elif fz:
            fuzz_note = "coverage-guided campaigns skipped: atheris could not be installed from the wheelhouse"
    results: dict[str, list[dict]] = {f.name: [] for f in facets}
    harness_errors = []
    if len(jobs) == 1 or procs == 1:
        outs = [_job(j) for j in jobs]
    else:
        # A worker that dies (or a library call that never returns) must not hang the check:
        # dead workers surface as BrokenProcessPool, a global time limit as a harness error (exit 2,
        # "inconclusive") - never as a violation.
        import concurrent.futures as cf

        limit = float(os.environ.get("VK_TIMEOUT", "300" if tier == "quick" else "5400"))
        ctx = mp.get_context("fork")
        ex = cf.ProcessPoolExecutor(max_workers=min(procs, len(jobs)), mp_context=ctx)
        futs = [ex.submit(_job, j) for j in jobs]
        outs = []
        deadline = time.time() + limit
        try:
            for j, f in zip(jobs, futs):
                try:
                    outs.append(f.result(timeout=max(1.0, deadline - time.time())))
                except cf.TimeoutError:
                    outs.append(("harness", f"TIMEOUT: facet {j[2]} shard {j[5]} did not finish within {limit:.0f}s (inconclusive, not a violation)"))
                except Exception as e:  # noqa: BLE001 - BrokenProcessPool etc.
                    outs.append(("harness", f"worker for facet {j[2]} shard {j[5]} died: {type(e).__name__}: {e}"))
        finally:
            timed_out = any(o[0] == "harness" and str(o[1]).startswith("TIMEOUT") for o in outs)
            if timed_out:
                kill_descendants()
            for p_ in list(getattr(ex, "_processes", {}).values()):
                try:
                    p_.kill()
                except Exception:  # noqa: BLE001
                    pass
            ex.shutdown(wait=False, cancel_futures=True)
    for j, (status, payload) in zip(jobs, outs):
        if status == "ok":
            results[j[2]].append(payload)
        else:
            harness_errors.append(payload)
    timeouts = [h for h in harness_errors if h.startswith("TIMEOUT")]
    if harness_errors:
        for h in harness_errors:
            print("HARNESS-ERROR:", h, file=sys.stderr)
        # shards that timed out are inconclusive; what the other shards found is still reported
        if len(timeouts) != len(harness_errors) or not any(results.values()):
            return 2

    merged = {name: Stats.merge(ds) for name, ds in results.items() if ds}
    known = Known(pid)

    # pinned reproducers of open known findings
    reproduced = []
    for e in known.entries:
        if e["status"] != "open":
            continue
        rep = e.get("repro")
        still = None
        if rep:
            still = replay_case(pid, mod, rep["facet"], rep["case"], expect_bucket=e["bucket"], known=None)
        hits = sum(m.known_hits.get(e["bucket"], 0) for m in merged.values())
        if still or (still is None and hits > 0):
            print(f"KNOWN-FINDING: property={pid} {e['what']} [bucket {e['bucket']}; hits this run: {hits}]")
            reproduced.append({"bucket": e["bucket"], "what": e["what"], "hits": hits, "pinned_reproducer": bool(still)})

    if COLLECT:
        for m in merged.values():
            for b, msg in sorted(m.collected.items()):
                print(f"COLLECTED [{m.name}] x{m.known_hits.get('UNLISTED ' + b, 0)} {b}\n    {msg[:700]}")
    # replay tier: every saved minimal failing input of this property (found earlier on the pinned
    # tree, on mutants or on seeded changes) is re-executed without Hypothesis; a fixed defect
    # that returns is reported at once.
    replayed, stale = 0, 0
    violations = []
    rdir = os.path.join(VERIF_DIR, "replays", pid)
    for fn in sorted(os.listdir(rdir)) if os.path.isdir(rdir) else []:
        if not fn.endswith(".json"):
            continue
        try:
            with open(os.path.join(rdir, fn)) as f:
                rp = json.load(f)
            found = _with_alarm(float(os.environ.get("VK_REPLAY_TIMEOUT", "120")), lambda: replay_case(pid, mod, rp["facet"], rp["case"]))
        except _ReplayTimeout:
            # a saved input on which the code under test no longer returns (only met on mutants so
            # far): inconclusive, reported like a shard that ran out of time
            msg = f"TIMEOUT: saved replay {fn} did not finish (inconclusive, not a violation)"
            print("HARNESS-ERROR:", msg, file=sys.stderr)
            timeouts.append(msg)
            continue
        except BaseException as e:  # noqa: BLE001 - a replay written for an older case format
            if isinstance(e, (KeyboardInterrupt, SystemExit)):
                raise
            stale += 1
            continue
        if found is None:
            stale += 1
            continue
        replayed += 1
        for b, msg in found:
            if not known.is_open(b) and not (ONLY_BUCKET and b != ONLY_BUCKET) and not COLLECT:
                violations.append(("saved-replay:" + fn, {"bucket": b, "message": msg, "case": rp["case"], "facet": rp["facet"], "path": os.path.join("replays", pid, fn)}))
    for m in merged.values():
        for v in m.violations:
            violations.append((m.name, v))
    exit_code = 0
    os.makedirs(os.path.join(VERIF_DIR, "replays", pid), exist_ok=True)
    seen_buckets = set()
    for fname, v in violations:
        if v["bucket"] in seen_buckets:
            continue
        seen_buckets.add(v["bucket"])
        if "path" in v:
            path = v["path"]
        else:
            h = jhash([fname, v["bucket"], v["case"]])
            path = os.path.join("replays", pid, f"{fname}-{h:016x}.json")
            with open(os.path.join(VERIF_DIR, path), "w") as f:
                json.dump({"property": pid, "facet": fname, "bucket": v["bucket"], "message": v["message"], "case": v["case"]}, f, indent=1)
        print(f"VIOLATION property={pid} replay={path}")
        print(f"  bucket: {v['bucket']}\n  {v['message']}")
        exit_code = 1

    # evidence
    total_cases = sum(m.cases for m in merged.values())
    nontriv = set()
    for m in merged.values():
        nontriv |= {(m.name, x) for x in m.nontrivial}
    samples = []
    for m in merged.values():
        for s in m.samples[:3]:
            samples.append({"facet": m.name, "case": s})
    exh_flags = [m.exhaustive for m in merged.values()]
    ev = {
        "property_id": pid,
        "tier": tier,
        "seed": seed,
        "level": level,
        "coverage": {
            "evaluations": total_cases,
            "distinct_nontrivial": len(nontriv),
            "rule": rule,
            "samples": samples,
            "exhaustive": bool(exh_flags) and all(x is True for x in exh_flags),
            "facets": {
                m.name: {
                    "cases": m.cases,
                    "distinct_nontrivial": len(m.nontrivial),
                    "discarded_ops": m.discarded,
                    "labels": dict(sorted(m.labels.items())),
                    "known_hits": dict(m.known_hits),
                    "excluded_by_construction": dict(m.excluded),
                    "inconclusive": m.inconclusive,
                    "exhaustive_within_family": m.exhaustive,
                    "violations": len(m.violations),
                    "notes": m.notes[:20],
                }
                for m in merged.values()
            },
            "known_findings_reproduced": reproduced,
            "saved_replays": {"re_executed": replayed, "stale_format": stale},
            "coverage_guided": fuzz_note,
        },
        "assumptions": assumptions,
        "wall_s": round(time.time() - t0, 2),
        "violations": len(seen_buckets),
    }
    os.makedirs(os.path.join(VERIF_DIR, "evidence"), exist_ok=True)
    with open(os.path.join(VERIF_DIR, "evidence", f"{pid}.json"), "w") as f:
        json.dump(ev, f, indent=1, sort_keys=False)
    if timeouts and exit_code == 0:
        exit_code = 2
    print(
        f"{pid} {tier} seed={seed}: cases={total_cases} nontrivial={len(nontriv)} "
        f"known={sum(sum(m.known_hits.values()) for m in merged.values())} violations={len(seen_buckets)} wall={ev['wall_s']}s",
    )
    return exit_code


class _ReplayTimeout(BaseException):
    pass


def _with_alarm(seconds, fn):
    """Runs fn() in this (main) thread under a SIGALRM limit."""
    import signal

    def on_alarm(signum, frame):
        raise _ReplayTimeout()

    try:
        prev = signal.signal(signal.SIGALRM, on_alarm)
    except ValueError:  # not the main thread: no limit
        return fn()
    signal.setitimer(signal.ITIMER_REAL, seconds)
    try:
        return fn()
    finally:
        signal.setitimer(signal.ITIMER_REAL, 0)
        signal.signal(signal.SIGALRM, prev)


def replay_case(pid, mod, facet_name, case, expect_bucket=None, known=None):
    """Runs one case through a facet's oracle without Hypothesis. Returns the list of
    (bucket, message) findings (all of them, known or not) or, when expect_bucket is
    given, whether that bucket fired."""
    facet = [f for f in mod.FACETS if f.name == facet_name]
    if not facet:
        return None
    facet = facet[0]

    class _AllOpen(Known):
        def __init__(self):
            self.entries = []
            self.open_buckets = {}

    stats = Stats(facet_name)
    rec = Recorder(stats, _AllOpen(), counting=False)
    facet.run(case, rec)
    found = rec.unlisted()
    if expect_bucket is not None:
        return any(b == expect_bucket for b, _ in found)
    return found
