"""Kill-point child for C20: feeds a history to a tracker with a CSV recorder and SIGKILLs
itself inside register() at the requested registration index.
usage: python -m vk.c20_child <job.json>"""
from __future__ import annotations

import json
import os
import signal
import sys


def main():
    with open(sys.argv[1]) as f:
        job = json.load(f)
    case, path, j, where = job["case"], job["csv"], job["kill_at"], job["where"]
    from geneticengine.evaluation.recorder import SearchRecorder

    from vk.c20_common import build

    class KillAt(SearchRecorder):
        def __init__(self):
            self.n = 0

        def register(self, tracker, individual, problem, is_best):
            if self.n == j:
                os.kill(os.getpid(), signal.SIGKILL)
            self.n += 1

    before = [KillAt()] if where == "before" else []
    after = [KillAt()] if where == "after" else []
    problem, tracker, inds, rec = build(case, path, before, after)
    pos = 0
    for b in case["batches"]:
        chunk = inds[pos : pos + b]
        if not chunk:
            break
        tracker.evaluate(chunk)
        pos += len(chunk)
    print("C20CHILD finished-without-kill")


if __name__ == "__main__":
    main()
