"""Fitness-value strategies shared by the selection / tracking / elitism properties.

Besides small integers (many exact ties) and ordinary floats they produce *near ties*: distinct
values whose relative difference is far below any tolerance a comparison could smuggle in
(adjacent doubles, 1e10 vs 1e10+1, ...). The oracles compare exactly, so a comparison that
treats nearly equal values as equal - or orders them by a rounded key - becomes visible."""
from __future__ import annotations

import math

from hypothesis import strategies as st

NEAR_TIE_FLOATS = [
    1e10, 1e10 + 1, 1e10 + 2,
    0.123456789012, 0.123456789013,
    3.0, 3.0000000001, 2.9999999999,
    -1e12, -1e12 - 500.0, -1e12 + 500.0,
    1e-300, 2e-300,
    0.1 + 0.2, 0.3,
]
# integers are exact in sums / negations below 2**53: safe for multi-objective aggregates
NEAR_TIE_INTS = [10_000_000_000, 10_000_000_001, 10_000_000_002, -10_000_000_000, -10_000_000_001]


def _neighbour(v, k):
    for _ in range(abs(k)):
        v = math.nextafter(v, math.inf if k > 0 else -math.inf)
    return v


def near_tie_floats():
    base = st.one_of(st.sampled_from(NEAR_TIE_FLOATS), st.floats(-10, 10, allow_nan=False).filter(lambda x: abs(x) > 1e-3))
    return st.one_of(st.sampled_from(NEAR_TIE_FLOATS), st.builds(_neighbour, base, st.integers(-2, 2)))


def num(v):
    """Cases are plain JSON: the infinities are written as the strings "inf" / "-inf"."""
    return float(v) if isinstance(v, str) else v


def single_objective_values(lo=-3, hi=3, infinities=False):
    if infinities:
        # the "invalid program" idiom: an infinite fitness (encoded as a string, see num())
        return st.one_of(single_objective_values(lo, hi), single_objective_values(lo, hi), single_objective_values(lo, hi), st.sampled_from(["inf", "-inf"]))
    return st.one_of(
        st.integers(lo, hi),
        st.integers(lo, hi),
        st.sampled_from([0.0, 0.5, -0.5, 1e-9, 1e9, -1e9]),
        st.floats(-10, 10, allow_nan=False),
        near_tie_floats(),
        st.sampled_from(NEAR_TIE_INTS),
    )


def exact_int_values(lo=-3, hi=3):
    """Integers only (exact under the aggregates used by multi-objective problems)."""
    return st.one_of(st.integers(lo, hi), st.integers(lo, hi), st.integers(lo, hi), st.sampled_from(NEAR_TIE_INTS))


NUMBER_FORMS = (None, None, None, "uint8", "uint64", "int8", "int64", "float32", "float64")


def as_form(v, form):
    """The same number as a fitness function written with numpy would return it (the documented
    return type is a number; numpy scalars are numbers). Values the dtype cannot hold exactly stay
    Python numbers."""
    v = num(v)
    if form is None or isinstance(v, bool):
        return v
    import numpy as np

    dt = getattr(np, form)
    if form.startswith(("uint", "int")):
        if not isinstance(v, int):
            return v
        info = np.iinfo(dt)
        return dt(v) if info.min <= v <= info.max else v
    x = dt(v)
    return x if float(x) == float(v) else v


def prescore(inds, minimize, key=lambda g: g[1]):
    """The individuals were scored before under ANOTHER problem (an earlier stage, a validation set,
    co-evolution): the opposite direction and other values. Returns that problem, which the caller keeps
    alive (fitness stores are weak-keyed)."""
    from geneticengine.evaluation.sequential import SequentialEvaluator
    from geneticengine.problems import SingleObjectiveProblem

    def other_value(p):
        v = key(p)
        try:
            return 1000.0 - 3.0 * float(v)
        except Exception:  # noqa: BLE001
            return 0.0

    other = SingleObjectiveProblem(other_value, minimize=not minimize)
    SequentialEvaluator().evaluate(other, list(inds))
    return other
