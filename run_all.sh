#!/bin/bash
# run_all.sh <tier> [seed] : run every check, summarise
TIER=${1:-quick}; SEED=${2:-1}
rc_all=0
for i in $(seq -w 1 20); do
  P=C$i
  s=$(date +%s)
  out=$(VERIF_SEED=$SEED ./check $P $TIER 2>&1); rc=$?
  e=$(( $(date +%s) - s ))
  echo "$P rc=$rc ${e}s $(echo "$out" | grep -c KNOWN-FINDING) known | $(echo "$out" | tail -1 | cut -c1-120)"
  if [ $rc -ne 0 ]; then echo "$out" | grep -A3 "VIOLATION\|HARNESS" | cut -c1-400 | head -12; rc_all=1; fi
done
exit $rc_all
