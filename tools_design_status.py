#!/usr/bin/env python3
"""Regenerates the data-driven part of DESIGN.md §8 (fix table, open findings, sensitivity and seeded-change
tables) below the marker line. Hand-written text lives in design_notes/*.md and above the marker."""
import glob, json, os, subprocess

MARK = "<!-- GENERATED BELOW: tools_design_status.py -->"
kf = json.load(open('/verif/known_findings.json'))['findings']
log = subprocess.run(["git", "-C", "/repo", "log", "--reverse", "--format=%h %s", "ed6bf22..HEAD"], capture_output=True, text=True).stdout.strip().splitlines()
by_commit = {}
for e in kf:
    if e['status'] == 'fixed':
        by_commit.setdefault(e['commit'], set()).add(e['property'])
rows = []
for l in log:
    h, msg = l.split(' ', 1)
    rows.append(f"| `{h}` | {','.join(sorted(by_commit.get(h, [])))} | {msg[5:]} |")
opens = [e for e in kf if e['status'] == 'open']
orow = [f"| {e['property']} | `{e['bucket']}` | {e['what'][:260]} |" for e in opens]
sens = json.load(open('/verif/evidence/sensitivity.json'))['results'] if os.path.exists('/verif/evidence/sensitivity.json') else []
caught = sum(1 for r in sens if r['status'] == 'CAUGHT')
srow = [f"| {r['property']} | {r['mutant']} | {r['status']} | {'; '.join(x.replace('bucket: ', '') for x in r.get('buckets', [])[:1])} |" for r in sens]
seed_rows = []
for f in sorted(glob.glob('/verif/seeded/C*/meta.json')):
    m = json.load(open(f)); o = m['our_check']
    name = os.path.basename(os.path.dirname(f))
    notes = open(f.replace('meta.json', 'notes.md')).read()
    first = [l.strip('-* ').strip() for l in notes.splitlines() if l.strip() and not l.startswith('#')]
    what = (first[0] if first else '')[:200].replace('|', '/')
    tier = 'quick' if str(o['quick_exit']) == '1' else ('thorough' if str(o['thorough_exit']) == '1' else 'MISSED')
    b = o['buckets'].split(';')[0].replace('bucket:', '').strip()
    seed_rows.append(f"| {name} | {what} | {tier} | `{b}` |")
notes_txt = open('/verif/design_notes/lessons.md').read() if os.path.exists('/verif/design_notes/lessons.md') else ''
gen = f'''{MARK}

### 8.3 Genuine defects found and repaired in /repo ({len(log)} `fix:` commits; the unedited baseline suite passes 121/121 after them)

Every row was first reported by the named check on the pinned tree (re-checkable with
`VK_REPO=<worktree of ed6bf22> VK_COLLECT=1 ./check <ID> quick`), shrunk, and is recorded as a `fixed` entry
in `known_findings.json` (fixed entries suppress nothing).

| commit | found by | what failed |
|---|---|---|
''' + "\n".join(rows) + f'''

One attempted repair was withdrawn: keeping `Annotated[...]` types out of the stack representation's symbol
table makes its metahandler branch reachable but breaks nested annotated element types (`KeyError`), so the
stack/refinement defects stay recorded as findings.

### 8.4 Genuine defects recorded, not repaired ({len(opens)} open entries in `known_findings.json`)

Each prints `KNOWN-FINDING:` (pinned reproducer re-executed on every run, or hit counter) and never fails the
run; inside Hypothesis they are counted and the example passes, so the search continues behind them. They are
not repaired because the repair is not small: the stack representation's treatment of refined types needs a
redesign of its symbol table; the empty-list minimum depth needs the generator to force empty lists at the
frontier; FullDecider/FullInitializer need an exact attainable-depth analysis (and an existing test pins the
current off-by-one); the tree-mutation locality fix (`synthesis_context` -> `gengy_synthesis_context`) unlocks
`ListSizeBetween.mutate` / `StringSizeBetween.mutate`, which reference attributes and signatures that do not
exist, and breaks an existing test; presenting every individual a step evaluates to the progress tracker needs
the evaluator and the tracker to be connected.

| property | bucket | what fails |
|---|---|---|
''' + "\n".join(orow) + f'''

Masking note: an open bucket hides other violations that fall into the same bucket (e.g. any change to tree
crossover with an abstract start symbol). Buckets are therefore call-site specific, facets that a finding
saturates have a sibling facet that excludes it by construction (stack without refined fields; concrete recursive
start symbols for tree crossover), and C04 attributes violations that come with a wrong recursive set to a
separate bucket.

### 8.5 Sensitivity: which check catches which change

**Hand-written mutants** (`tools_sensitivity.py`, applied to a scratch worktree of /repo HEAD, `./check <ID> quick`
with `VK_REPO=<worktree>`; results in `evidence/sensitivity.json`): {caught} of {len(sens)} caught by the quick tier.

| property | mutant | result | first bucket |
|---|---|---|---|
''' + "\n".join(srow) + f'''

**Independently seeded changes** (`seeded/<name>/`: `patch.diff`, `demo.py`, `notes.md`, `meta.json`; `-r2`, `-r3`, `-r4` = later
rounds, where the sub-agent was told the earlier ideas for that property and asked for a different mechanism/clause). One fresh
sub-agent per property and round was given only the property text and a scratch worktree (nothing from /verif).
Every change was confirmed here in a fresh worktree (`tools_seed_verify.sh`: patch applies, demo exits 0 without and
1 with the change, `pytest -n 8` passes with it) before the check was run against it. "caught by" is the cheapest
tier of the *final* checks that reports it.

| seed | change (first line of its notes) | caught by | first bucket |
|---|---|---|---|
''' + "\n".join(seed_rows) + "\n\n" + notes_txt
s = open('/verif/DESIGN.md').read()
for marker in (MARK, "\n### 8.3 Genuine defects found and repaired"):
    if marker in s:
        s = s[:s.index(marker)]
        break
open('/verif/DESIGN.md', 'w').write(s.rstrip('\n') + '\n\n' + gen)
print("DESIGN.md regenerated:", len(log), "fixes,", len(opens), "open,", len(seed_rows), "seeds")
