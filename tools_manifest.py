#!/usr/bin/env python3
"""Regenerates MANIFEST.json from the table below (run by hand; not part of any check)."""
import json, os

ALL = [f"C{i:02d}" for i in range(1, 21)]

PBT = "property-based testing (Hypothesis) with generated grammars and an independent reference model"
NOTE = "Trusted base: Hypothesis generators, the reference model in vk/refmodel.py (cross-checked against brute force for minimum depths), harness-owned random sources; inputs restricted to documented declaration forms; bounds per tier are in the evidence."
CHECKS = {
 "C01": dict(level="exploration", design="§2 C01", technique=PBT + "; op-sequence generation over 5 representations",
   text="Generated grammars x representations x deciders x op sequences (create/map/mutate/crossover/search); every produced program and every fitness-function argument judged by the reference well-typedness predicate; escaping exceptions must be library errors. Sampled, bounded depth and sequence length."),
 "C02": dict(level="exploration", design="§2 C02", technique=PBT + "; exhaustive enumeration of metahandler draws via scripted RandomSource",
   text="Every shipped metahandler under generated parameters and sources (all decision paths when <= 20000): generated value satisfies the documented predicate and validate() accepts it; refined fields of every produced program judged against actual siblings."),
 "C03": dict(level="exploration", design="§2 C03", technique=PBT + "; exhaustive enumeration of creation decision paths at the depth frontier",
   text="Depth limits d >= grammar minimum: no exception, reference depth <= d after every operation; d < minimum: library error before any random draw; all decision paths at the frontier for small grammars; depth-taking initialisers."),
 "C04": dict(level="exploration", design="§2 C04", technique="exhaustive enumeration of ALL random decision sequences (scripted RandomSource odometer) against a reference bounded language; grammars drawn by Hypothesis",
   text="For finite-choice grammars the set of programs reachable by grow creation over all decision paths is compared (missing/extra) with the reference language of depth <= d; PI-grow and FullDecider containment; FullInitializer vs full language. Exhaustive per (grammar, depth) pair, sampled over grammars."),
 "C05": dict(level="exploration", design="§2 C05", technique=PBT + "; differential against reference fixpoints, brute-force cross-check, shipped grammars imported",
   text="alternatives, distanceToTerminal, recursive_prods and usable_grammar() compared with independent reference computations on generated hierarchies (both depth modes) and every shipped grammar."),
 "C06": dict(level="exploration", design="§2 C06", technique=PBT + "; exhaustive GE cut points for gene lengths <= 16",
   text="Linear/structured crossover: every child gene comes from a parent at the same locus; mutation Hamming distance <= 1 and same shape; tree crossover: child = base parent with one position replaced by well-typed material of the other parent."),
 "C07": dict(level="exploration", design="§2 C07", technique=PBT + "; interleaved op sequences with a recording shared RandomSource",
   text="Every genotype is re-mapped after every operation (and by a second representation instance): same canonical program, zero draws from the shared source (dSGE: only while the genotype grows)."),
 "C08": dict(level="exploration", design="§2 C08", technique="differential testing across child interpreters (PYTHONHASHSEED, allocation patterns, import orders) driven by Hypothesis-drawn configurations",
   text="Same configuration and seed run twice in-process and in >= 3 fresh interpreters with perturbed hash seed / heap layout / import order must evaluate the same program sequence and return the same best. Environments are sampled."),
 "C09": dict(level="exploration", design="§2 C09", technique=PBT + "; generated step-composition histories with deep snapshots of all earlier populations",
   text="After every step of a generated history the deep snapshot (program, genes, node metadata, cached fitness) of every individual of every earlier population is unchanged."),
 "C10": dict(level="exploration", design="§2 C10", technique=PBT + "; grammar snapshots after every (also failing) operation",
   text="Grammars with infeasible dependent contexts: grammar snapshot identical after every operation; creatable set (all decision paths) equal before and after an operation burst."),
 "C11": dict(level="exploration", design="§2 C11", technique=PBT + "; independent traversal as oracle for per-node metadata",
   text="Every node of every produced program (creation, mutation, crossover; tree/GE/SGE/dSGE): gengy_nodes, distance, weighted size and type index equal an independent traversal."),
 "C12": dict(level="exploration", design="§2 C12", technique="exhaustive enumeration of fitness histories over {0,1,2} (length <= 7/9) + Hypothesis histories + observed searches, against a reference fold",
   text="Best individual, is_best flags and returned individual agree with a reference fold at every tracker call, registration and budget check. Exhaustive within the small-history family."),
 "C13": dict(level="exploration", design="§2 C13", technique=PBT + "; invocation logging with a value-changing fitness function; parallel-vs-sequential differential with harness-owned worker jitter",
   text="Stored fitness == fitness function of the program, aggregate formula, at most one invocation per (individual, problem), counter == invocations, ParallelEvaluator == SequentialEvaluator."),
 "C14": dict(level="exploration", design="§2 C14", technique=PBT + "; spy budgets on every budget node, bounded-termination with livelock detection",
   text="Every budget verdict equals the reference predicate, the search stops at the first true check, nothing is evaluated afterwards, count window n <= total < n+k. Liveness bounded (cap = inconclusive)."),
 "C15": dict(level="exploration", design="§2 C15", technique="exhaustive enumeration of (size, weight vector) configurations + Hypothesis step compositions / initialisers / GP runs",
   text="len(step.apply(.., k)) == k for all small Parallel/ExclusiveParallel configurations and generated nestings over list/Population/iterator inputs; initialisers; every GP generation has population_size members."),
 "C16": dict(level="exploration", design="§2 C16", technique="exhaustive enumeration of small populations + Hypothesis populations + GP runs with a counting elitism step",
   text="Elitism returns exactly k, a sub-multiset, no excluded strictly better; best fitness per generation monotone when the top-level elitism step has >= 1 slot."),
 "C17": dict(level="exploration", design="§2 C17", technique=PBT + "; exhaustive enumeration of all random draws (scripted source) for small populations; reference lexicase",
   text="Tournament winners are members and at least as fit as recorded participants; lexicase winners survive the reference filter for some case order among the still-available candidates; all outcomes for populations <= 4."),
 "C18": dict(level="exploration", design="§2 C18", technique="property-based testing (Hypothesis) + exhaustive enumeration of random draws via scripted RandomSource",
   text="Generated-input search over sources x primitive-call sequences x bounds, plus complete enumeration of all draws of choice_weighted (totals <= 2000) and of every decision path of BaseDecider.random_int; each result judged against the primitive's stated contract and a same-seed twin."),
 "C19": dict(level="exploration", design="§2 C19", technique=PBT + "; boundary/all-draw enumeration of weight-aware choosers",
   text="Per-rule weights non-negative, sum to 1, keep declared ratios, stable under re-extraction; choosers never return a zero-weight production while a positive one is available."),
 "C20": dict(level="fault_enumeration", design="§2 C20", technique="property-based testing (Hypothesis) of recorder configurations and histories + enumerated SIGKILL points in child processes against a prefix oracle",
   text="File re-read at every registration: header + complete rows equal to the reference rows and a prefix of later states; child processes killed before/after the CSV recorder at every registration index (thorough) leave exactly the expected prefix."),
}
for c in CHECKS.values():
    c.setdefault("note", NOTE)
    c["technique"] += "; thorough tier adds a coverage-guided campaign (atheris/libFuzzer over the same Hypothesis strategy and oracle) per generated facet"
CHECKS["C12"]["technique"] += "; Hypothesis RuleBasedStateMachine over the progress tracker"

def main():
    checks = []
    for pid in ALL:
        if pid not in CHECKS:
            continue
        c = CHECKS[pid]
        checks.append({
            "property_id": pid,
            "quick_cmd": f"./check {pid} quick",
            "thorough_cmd": f"./check {pid} thorough",
            "evidence_file": f"/verif/evidence/{pid}.json",
            "replay_cmd_template": f"./check {pid} --replay {{path}}",
            "engine": "vk",
            "level_claimed": {"category": c["level"], "text": c["text"], "design_ref": c["design"]},
            "level_note": c["note"],
            "technique": c["technique"],
        })
    na = [{"property_id": p, "reason": "no check built; nothing is claimed for it"} for p in ALL if p not in CHECKS]
    m = {
        "version": 1,
        "setup_cmd": "/venv/bin/python -c 'import hypothesis' 2>/dev/null || /venv/bin/pip install --no-index --find-links /opt/veriftools/wheels hypothesis; test -d /verif/.deps/atheris || /venv/bin/pip install -q --no-index --find-links /opt/veriftools/wheels --target /verif/.deps atheris || true",
        "hooks": {
            "guard": "ALCIDES_GENETICENGINE_VERIF",
            "enable": "no hooks are needed: every observation point is reached through public extension points (custom RandomSource, SearchRecorder, SearchBudget, MetaHandlerGenerator, GeneticStep, fitness function)",
            "baseline_off_cmd": "cd /repo && /venv/bin/python -m pytest -ra -q -p no:cacheprovider --timeout=900 --continue-on-collection-errors",
            "source_commits": [],
            "add_only": True,
        },
        "engines": [{"name": "vk", "path": "/verif/vk", "serves_properties": sorted(CHECKS), "kind_free_text": "Hypothesis-driven property-based testing with generated grammars (GrammarSpec), an independent reference model, scripted/recording random sources, exhaustive enumeration of random decisions, child-process differential runs and kill-point injection; optional coverage-guided driver vk/fuzz.py (atheris)"}],
        "checks": checks,
        "not_applicable": na,
        "notes": "Entry point ./check <ID> quick|thorough|--replay <file>; exit 0 held / 1 VIOLATION / 2 harness error. Known findings: known_findings.json (open entries print KNOWN-FINDING, fixed entries suppress nothing).",
    }
    json.dump(m, open("/verif/MANIFEST.json", "w"), indent=1)

if __name__ == "__main__":
    main()
