#!/usr/bin/env python3
"""Regenerates MANIFEST.json from the table below (run by hand; not part of any check)."""
import json, os

ALL = [f"C{i:02d}" for i in range(1, 21)]

CHECKS = {
 "C18": dict(
   level="exploration",
   text="Generated-input search (Hypothesis) over sources x primitive-call sequences x bounds, plus complete enumeration of all draws of choice_weighted (totals <= 2000) and of every decision path of BaseDecider.random_int; each result judged against the primitive's stated contract and a same-seed twin. Exhaustive only inside the stated finite sub-families; elsewhere sampled.",
   note="Trusts Hypothesis' generator and the harness-owned ScriptedSource/FixedSource; gene lists non-empty with values in 0..sys.maxsize; float bounds with 1e-9 relative tolerance.",
   technique="property-based testing (Hypothesis) + exhaustive enumeration of random draws via scripted RandomSource",
   design="§2 C18"),
}

def main():
    checks = []
    for pid in ALL:
        if pid not in CHECKS:
            continue
        c = CHECKS[pid]
        checks.append({
            "property_id": pid,
            "quick_cmd": f"./check {pid} quick",
            "thorough_cmd": f"./check {pid} thorough",
            "evidence_file": f"/verif/evidence/{pid}.json",
            "replay_cmd_template": f"./check {pid} --replay {{path}}",
            "engine": "vk",
            "level_claimed": {"category": c["level"], "text": c["text"], "design_ref": c["design"]},
            "level_note": c["note"],
            "technique": c["technique"],
        })
    na = [{"property_id": p, "reason": "check not built yet in this session (planned: see DESIGN.md §2); nothing is claimed for it"} for p in ALL if p not in CHECKS]
    m = {
        "version": 1,
        "setup_cmd": "/venv/bin/python -c 'import hypothesis' 2>/dev/null || /venv/bin/pip install --no-index --find-links /opt/veriftools/wheels hypothesis",
        "hooks": {
            "guard": "ALCIDES_GENETICENGINE_VERIF",
            "enable": "no hooks are needed: every observation point is reached through public extension points (custom RandomSource, SearchRecorder, SearchBudget, MetaHandlerGenerator, GeneticStep, fitness function)",
            "baseline_off_cmd": "cd /repo && /venv/bin/python -m pytest -ra -q -p no:cacheprovider --timeout=900 --continue-on-collection-errors",
            "source_commits": [],
            "add_only": True,
        },
        "engines": [{"name": "vk", "path": "/verif/vk", "serves_properties": sorted(CHECKS), "kind_free_text": "Hypothesis-driven property-based testing with generated grammars (GrammarSpec), an independent reference model, scripted/recording random sources, exhaustive enumeration of random decisions, child-process differential runs and kill-point injection"}],
        "checks": checks,
        "not_applicable": na,
        "notes": "Entry point ./check <ID> quick|thorough|--replay <file>; exit 0 held / 1 VIOLATION / 2 harness error. Known findings: known_findings.json (open entries print KNOWN-FINDING, fixed entries suppress nothing).",
    }
    json.dump(m, open("/verif/MANIFEST.json", "w"), indent=1)

if __name__ == "__main__":
    main()
