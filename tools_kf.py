#!/usr/bin/env python3
"""Maintain known_findings.json by hand (never at check run time).
usage: tools_kf.py fixed <PID> <bucket> <commit> <what...>
       tools_kf.py open  <PID> <bucket> <replay.json|-> <what...>
"""
import json, sys
p = "/verif/known_findings.json"
d = json.load(open(p))
kind, pid, bucket = sys.argv[1:4]
if kind == "fixed":
    commit = sys.argv[4]; what = " ".join(sys.argv[5:])
    d["findings"] = [e for e in d["findings"] if not (e["property"] == pid and e["bucket"] == bucket)]
    d["findings"].append({"property": pid, "bucket": bucket, "status": "fixed", "commit": commit, "what": what,
                          "line": f"fixed: property={pid} {commit} {what}"})
elif kind == "open":
    rp = sys.argv[4]; what = " ".join(sys.argv[5:])
    e = {"property": pid, "bucket": bucket, "status": "open", "what": what}
    if rp != "-":
        r = json.load(open(rp)); e["repro"] = {"facet": r["facet"], "case": r["case"]}
    d["findings"] = [x for x in d["findings"] if not (x["property"] == pid and x["bucket"] == bucket)]
    d["findings"].append(e)
d["findings"].sort(key=lambda e: (e["property"], e["status"], e["bucket"]))
json.dump(d, open(p, "w"), indent=1)
