#!/bin/bash
# Re-runs the final quick checks against every kept seeded change (tests are not re-run: SKIP_TESTS=1).
# A patch that no longer applies at /repo HEAD (because a later fix: commit touched the same lines) is
# verified on the commit it was written against.
cd /verif
for d in seeded/*/; do
  n=$(basename $d); id=${n%%-*}
  base=""
  if ! git -C /repo apply --check $d/patch.diff 2>/dev/null; then
    for b in 5b99606 65b01ec 7ff9aea; do
      if git -C /repo worktree add -q /tmp/sv_probe $b 2>/dev/null; then
        if git -C /tmp/sv_probe apply --check /verif/$d/patch.diff 2>/dev/null; then base=$b; fi
        git -C /repo worktree remove --force /tmp/sv_probe
      fi
      [ -n "$base" ] && break
    done
  fi
  BASE=$base SKIP_TESTS=1 THOROUGH=0 ./tools_seed_verify.sh $id /tmp/none $n 2>&1 | tail -1 | cut -c1-260
done
